package main

// C19 - the client never sends private keys and installs credentials safely.
//
// The real client code (setupCerts) runs against the REAL keymasterd binary:
// temp HOME, an http.Client whose transport records every request (line,
// headers, body) before forwarding, a recording SSH agent on SSH_AUTH_SOCK (or
// none), os.Stdin replaced by a pipe for the password / TOTP prompts.

import (
	"bytes"
	"crypto"
	"crypto/ecdsa"
	"crypto/ed25519"
	"crypto/elliptic"
	crand "crypto/rand"
	"crypto/rsa"
	"crypto/tls"
	"crypto/x509"
	"encoding/base64"
	"encoding/hex"
	"encoding/json"
	"encoding/pem"
	"fmt"
	"io"
	"mime"
	"mime/multipart"
	"net"
	"net/http"
	"net/url"
	"os"
	"path/filepath"
	"regexp"
	"strings"
	"sync"
	"testing"
	"time"

	"github.com/Cloud-Foundations/Dominator/lib/log/debuglogger"
	"github.com/Cloud-Foundations/keymaster/lib/client/config"
	"github.com/pquerna/otp/totp"
	"golang.org/x/crypto/ssh"
	"golang.org/x/crypto/ssh/agent"
	stdlog "log"
)

type c19Recorded struct {
	Method string
	URL    string
	Header http.Header
	Body   []byte
	Status int
}

type c19Transport struct {
	inner   http.RoundTripper
	mu      sync.Mutex
	reqs    []c19Recorded
	onLogin func()
}

func (t *c19Transport) RoundTrip(r *http.Request) (*http.Response, error) {
	var body []byte
	if r.Body != nil {
		body, _ = io.ReadAll(r.Body)
		r.Body.Close()
		r.Body = io.NopCloser(bytes.NewReader(body))
	}
	rec := c19Recorded{Method: r.Method, URL: r.URL.String(), Header: r.Header.Clone(), Body: body}
	resp, err := t.inner.RoundTrip(r)
	if resp != nil {
		rec.Status = resp.StatusCode
	}
	t.mu.Lock()
	t.reqs = append(t.reqs, rec)
	cb := t.onLogin
	t.mu.Unlock()
	if cb != nil && strings.HasSuffix(r.URL.Path, "/api/v0/login") && resp != nil && resp.StatusCode == 200 {
		cb()
	}
	return resp, err
}

// recording agent
type c19Agent struct {
	agent.Agent
	mu    sync.Mutex
	added []agent.AddedKey
	// noLifetimes: an agent that refuses keys with a lifetime constraint (forwarded agents, some platform agents); the
	// client then adds the key without one
	noLifetimes      bool
	lifetimeRefusals int
}

func (a *c19Agent) Add(k agent.AddedKey) error {
	a.mu.Lock()
	if a.noLifetimes && k.LifetimeSecs != 0 {
		a.lifetimeRefusals++
		a.mu.Unlock()
		return fmt.Errorf("agent refused operation")
	}
	a.added = append(a.added, k)
	a.mu.Unlock()
	return a.Agent.Add(k)
}

func c19StartAgent(sock string) (*c19Agent, net.Listener, error) {
	l, err := net.Listen("unix", sock)
	if err != nil {
		return nil, nil, err
	}
	a := &c19Agent{Agent: agent.NewKeyring()}
	go func() {
		for {
			c, err := l.Accept()
			if err != nil {
				return
			}
			go func() { agent.ServeAgent(a, c); c.Close() }()
		}
	}()
	return a, l, nil
}

// c19AgeAgent replaces every certificate the agent holds by an expired copy (same key, same label, validity moved two
// days into the past, re-signed with the CA key) and drops entry lifetimes: the state of an agent that ignores key
// lifetimes, one day later.
func c19AgeAgent(a *c19Agent, copies int) (int, error) {
	blk, _ := pem.Decode(verifDFixture("ca_rsa2048"))
	if blk == nil {
		return 0, fmt.Errorf("CA fixture")
	}
	var caKey interface{}
	var err error
	if caKey, err = x509.ParsePKCS1PrivateKey(blk.Bytes); err != nil {
		if caKey, err = x509.ParsePKCS8PrivateKey(blk.Bytes); err != nil {
			return 0, err
		}
	}
	caSigner, err := ssh.NewSignerFromKey(caKey)
	if err != nil {
		return 0, err
	}
	a.mu.Lock()
	held := append([]agent.AddedKey{}, a.added...)
	a.mu.Unlock()
	// keep only the latest entry per label (what the keyring holds now)
	latest := map[string]agent.AddedKey{}
	for _, k := range held {
		if k.Certificate != nil {
			latest[k.Comment] = k
		}
	}
	if err := a.Agent.RemoveAll(); err != nil {
		return 0, err
	}
	n := 0
	for _, k := range latest {
		for j := 0; j < copies; j++ {
			c := *k.Certificate
			c.Serial = uint64(1000 + j)
			c.ValidAfter = uint64(time.Now().Add(-time.Duration(72+j) * time.Hour).Unix())
			c.ValidBefore = uint64(time.Now().Add(-time.Duration(48-j) * time.Hour).Unix())
			if j == 1 {
				c.ValidBefore = uint64(time.Now().Add(time.Hour).Unix()) // one of several is still valid
			}
			if err := c.SignCert(crand.Reader, caSigner); err != nil {
				return n, err
			}
			if err := a.Agent.Add(agent.AddedKey{PrivateKey: k.PrivateKey, Certificate: &c, Comment: k.Comment}); err != nil {
				return n, err
			}
			n++
		}
	}
	return n, nil
}

// needles: every spelling of private material we look for on the wire
func c19Needles(priv interface{}) map[string][]byte {
	n := map[string][]byte{}
	add := func(name string, b []byte) {
		if len(b) >= 16 {
			n[name] = b
		}
	}
	switch k := priv.(type) {
	case *rsa.PrivateKey:
		add("rsa.D", k.D.Bytes())
		for i, p := range k.Primes {
			add(fmt.Sprintf("rsa.prime%d", i), p.Bytes())
		}
		k.Precompute()
		if k.Precomputed.Dp != nil {
			add("rsa.dP", k.Precomputed.Dp.Bytes())
			add("rsa.dQ", k.Precomputed.Dq.Bytes())
			add("rsa.qInv", k.Precomputed.Qinv.Bytes())
		}
	case *ecdsa.PrivateKey:
		add("ec.D", k.D.FillBytes(make([]byte, (k.Curve.Params().BitSize+7)/8)))
	case ed25519.PrivateKey:
		add("ed25519.seed", k.Seed())
	case *ed25519.PrivateKey:
		add("ed25519.seed", k.Seed())
	}
	return n
}

// c19Find reports in which spelling needle occurs in hay ("" = not at all)
func c19Find(hay []byte, needle []byte) string {
	if bytes.Contains(hay, needle) {
		return "raw"
	}
	low := bytes.ToLower(hay)
	if bytes.Contains(low, []byte(hex.EncodeToString(needle))) {
		return "hex"
	}
	// base64 in any alignment, with whitespace removed from the haystack (PEM line breaks)
	compact := bytes.Map(func(r rune) rune {
		if r == '\n' || r == '\r' || r == ' ' || r == '\t' {
			return -1
		}
		return r
	}, hay)
	for _, enc := range []*base64.Encoding{base64.StdEncoding, base64.URLEncoding} {
		for off := 0; off < 3; off++ {
			if len(needle) < off+9 {
				continue
			}
			part := needle[off:]
			part = part[:len(part)/3*3]
			e := enc.EncodeToString(part)
			if len(e) > 8 && bytes.Contains(compact, []byte(e[:len(e)-0])) {
				return "base64"
			}
			// alignment inside the stream shifts the first and last symbols: search the inner part
			if len(e) > 12 && bytes.Contains(compact, []byte(e[4:len(e)-4])) {
				return "base64"
			}
		}
	}
	return ""
}

func c19PubEqual(a, b crypto.PublicKey) bool {
	da, e1 := x509.MarshalPKIXPublicKey(a)
	db, e2 := x509.MarshalPKIXPublicKey(b)
	return e1 == nil && e2 == nil && bytes.Equal(da, db)
}

type c19Run struct {
	Pref     string   `json:"key_preference"`
	Factor   string   `json:"second_factor"`
	Agent    bool     `json:"agent_present"`
	Err      string   `json:"client_error,omitempty"`
	CertReqs []string `json:"certificate_requests"`
	Note     string   `json:"note,omitempty"`
}

var c19PrivRe = regexp.MustCompile(`-----BEGIN [A-Z ]*PRIVATE KEY-----`)

func TestVerifC19(t *testing.T) {
	rep := newVerifReport("C19", "the real client (setupCerts) against the real keymasterd binary for key preference rsa/p256/p384 x second-factor path (password only, TOTP prompt) x SSH agent present/absent, each run twice; every request the client's transport sends is recorded; private halves learnt from the sinks (agent Add calls, key files) are searched on the wire in raw/hex/base64/PEM spellings; submitted keys must be the public halves; files with private material must be mode 0600; the agent holds one certificate per label after two runs; every certificate request of every offered key type is answered 200; class = (preference, factor, agent, outcome)")
	defer rep.Finish()
	logger := debuglogger.New(stdlog.New(io.Discard, "", 0))
	type factor struct {
		name  string
		certs []string
	}
	factors := []factor{{"password", []string{"password"}}, {"totp", []string{"TOTP"}}}
	rounds := 1
	if verifThorough() {
		rounds = 8 // fresh users, fresh client keys: more private material to look for on the wire
	}
	suffix := func(round int) string {
		if round == 0 {
			return ""
		}
		return fmt.Sprint(round)
	}
	for _, f := range factors {
		users := map[string]string{}
		for round := 0; round < rounds; round++ {
			for _, pref := range []string{"rsa", "p256", "p384"} {
				for _, a := range []string{"a", "n"} {
					users["u"+pref+a+suffix(round)] = "alice-pw-19"
				}
			}
		}
		d, err := verifStartDaemon(verifDaemonOpts{Name: "c19-" + f.name, Users: users,
			AllowedCerts: f.certs, AllowedWebUI: []string{"password"}, EnableTOTP: true, Ed25519: true})
		if err != nil {
			rep.Inconc("daemon: %v", err)
			return
		}
		defer d.Stop()
		for round := 0; round < rounds; round++ {
			for _, pref := range []string{"rsa", "p256", "p384"} {
				for _, withAgent := range []bool{true, false} {
					user := "u" + pref + map[bool]string{true: "a", false: "n"}[withAgent] + suffix(round)
					secret, iters := "", 2
					if round%2 == 1 {
						iters = 3
					}
					if f.name == "totp" {
						// one accepted code per 30-s period and user: a single run per (enrolled) user
						iters = 1
						if secret, err = c19EnrollTOTP(d, user, "alice-pw-19"); err != nil {
							rep.Inconc("TOTP enrolment on the real daemon: %v", err)
							return
						}
					}
					c19OneConfig(t, rep, d, logger, pref, f.name, secret, withAgent, user, iters)
				}
			}
		}
	}
	c19UnusualButValidKeys(rep)
	rep.Floor("client_runs_ok", 12)
	rep.Floor("unusual_valid_keys_offered", 8)
	rep.Floor("wire_requests_recorded", 100)
	rep.Floor("public_halves_found_on_wire", 20)
	rep.Floor("private_needles_searched", 50)
	rep.Floor("agent_runs_checked", 3)
	rep.Floor("agent_without_lifetimes_two_runs", 1)
	rep.Floor("agent_certificates_aged_between_runs", 2)
	rep.Floor("file_modes_checked", 6)
}

func c19EnrollTOTP(d *verifDaemon, user, pw string) (string, error) {
	jar := &c19Jar{}
	cl := &http.Client{Transport: &http.Transport{TLSClientConfig: &tls.Config{RootCAs: d.RootPool()}}, Jar: jar, Timeout: 20 * time.Second}
	resp, err := cl.PostForm(d.ServiceURL()+"/api/v0/login", url.Values{"username": {user}, "password": {pw}})
	if err != nil {
		return "", err
	}
	resp.Body.Close()
	if resp.StatusCode != 200 {
		return "", fmt.Errorf("login %d", resp.StatusCode)
	}
	resp, err = cl.PostForm(d.ServiceURL()+"/totp/GenerateNew/", url.Values{})
	if err != nil {
		return "", err
	}
	var out struct{ TOTPSecret string }
	json.NewDecoder(resp.Body).Decode(&out)
	resp.Body.Close()
	if out.TOTPSecret == "" {
		return "", fmt.Errorf("no secret (%d)", resp.StatusCode)
	}
	code, _ := totp.GenerateCode(out.TOTPSecret, time.Now())
	cl.CheckRedirect = func(*http.Request, []*http.Request) error { return http.ErrUseLastResponse }
	resp, err = cl.PostForm(d.ServiceURL()+"/totp/ValidateNew/", url.Values{"OTP": {code}})
	if err != nil {
		return "", err
	}
	resp.Body.Close()
	if resp.StatusCode != 302 {
		return "", fmt.Errorf("validate %d", resp.StatusCode)
	}
	return out.TOTPSecret, nil
}

type c19Jar struct {
	mu sync.Mutex
	c  []*http.Cookie
}

func (j *c19Jar) SetCookies(u *url.URL, cookies []*http.Cookie) {
	j.mu.Lock()
	for _, c := range cookies {
		kept := j.c[:0]
		for _, o := range j.c {
			if o.Name != c.Name {
				kept = append(kept, o)
			}
		}
		j.c = append(kept, c)
	}
	j.mu.Unlock()
}
func (j *c19Jar) Cookies(u *url.URL) []*http.Cookie {
	j.mu.Lock()
	defer j.mu.Unlock()
	return append([]*http.Cookie{}, j.c...)
}

func c19OneConfig(t *testing.T, rep *verifReport, d *verifDaemon, logger *debuglogger.Logger, pref, factorName, secret string, withAgent bool, user string, iters int) {
	home, _ := os.MkdirTemp(os.Getenv("VERIF_SCRATCH"), "home-")
	defer os.RemoveAll(home)
	os.Setenv("HOME", home)
	sock := filepath.Join(home, "agent.sock")
	var ag *c19Agent
	if withAgent {
		var l net.Listener
		var err error
		ag, l, err = c19StartAgent(sock)
		if err != nil {
			rep.Inconc("agent: %v", err)
			return
		}
		defer l.Close()
		// every third agent configuration is an agent that refuses lifetime constraints
		ag.noLifetimes = pref == "p256"
		defer func() {
			ag.mu.Lock()
			n := ag.lifetimeRefusals
			ag.mu.Unlock()
			if ag.noLifetimes {
				rep.Count("agent_lifetime_refusals", n)
				if n > 0 && iters >= 2 {
					rep.Count("agent_without_lifetimes_two_runs", 1)
				}
			}
		}()
		os.Setenv("SSH_AUTH_SOCK", sock)
	} else {
		os.Setenv("SSH_AUTH_SOCK", filepath.Join(home, "no-agent-here"))
	}
	cfg := config.AppConfigFile{}
	cfg.Base.Gen_Cert_URLS = d.ServiceURL() + "/"
	cfg.Base.Gen_Cert_URLS = strings.TrimSuffix(cfg.Base.Gen_Cert_URLS, "/")
	cfg.Base.PreferredKeyType = pref
	var allReqs []c19Recorded
	run := c19Run{Pref: pref, Factor: factorName, Agent: withAgent}
	for iter := 0; iter < iters; iter++ {
		client, err := getHttpClient(d.RootPool(), logger)
		if err != nil {
			rep.Inconc("http client: %v", err)
			return
		}
		rec := &c19Transport{inner: client.Transport}
		client.Transport = rec
		// stdin: password now, TOTP code once the login has been answered
		pr, pw, _ := os.Pipe()
		oldStdin := os.Stdin
		os.Stdin = pr
		oldStdout := os.Stdout
		devnull, _ := os.OpenFile(os.DevNull, os.O_WRONLY, 0)
		os.Stdout = devnull
		fmt.Fprintf(pw, "alice-pw-19\n")
		if factorName == "totp" {
			rec.onLogin = func() {
				code, _ := totp.GenerateCode(secret, time.Now())
				fmt.Fprintf(pw, "%s\n", code)
			}
		}
		err = setupCerts(user, home, cfg, client, logger)
		os.Stdin, os.Stdout = oldStdin, oldStdout
		pw.Close()
		pr.Close()
		devnull.Close()
		rec.mu.Lock()
		allReqs = append(allReqs, rec.reqs...)
		rec.mu.Unlock()
		if err != nil {
			run.Err = err.Error()
			break
		}
		if ag != nil && iter == 0 && iters > 1 && pref != "rsa" { // (the rsa run keeps the still valid certificate of the first run)
			// between the two runs a day passes on an agent that does not expire its entries: what it holds under
			// these labels is now an EXPIRED certificate; the second run must still replace it
			copies := 1
			if pref == "p256" {
				copies = 3 // several stale entries under one label, next to each other (left by overlapping earlier runs)
			}
			if n, err := c19AgeAgent(ag, copies); err != nil {
				rep.Obs("could not age the agent's certificates: %v", err)
			} else {
				rep.Count("agent_certificates_aged_between_runs", n)
			}
		}
	}
	rep.Count("wire_requests_recorded", len(allReqs))
	// ---- every certificate request answered 200
	certOK := true
	for _, r := range allReqs {
		if strings.Contains(r.URL, "/certgen/") {
			u, _ := url.Parse(r.URL)
			keyType := c19SubmittedKeyType(r)
			run.CertReqs = append(run.CertReqs, fmt.Sprintf("%s %s -> %d", u.Query().Get("type"), keyType, r.Status))
			if r.Status != 200 {
				certOK = false
				rep.Violate(fmt.Sprintf("C19/offered-key-type-refused/%s/%s", u.Query().Get("type"), keyType),
					fmt.Sprintf("the client offered a %s key for a %s certificate (preference %s) and the server answered %d", keyType, u.Query().Get("type"), pref, r.Status), run)
			}
		}
	}
	outcome := "ok"
	if run.Err != "" {
		outcome = "client-error"
	}
	rep.Eval(fmt.Sprintf("run|%s|%s|agent=%v|%s", pref, factorName, withAgent, outcome))
	if run.Err != "" {
		if certOK {
			rep.Violate("C19/client-failed/"+pref+"/"+factorName, "the client run failed: "+run.Err, run)
		}
		return
	}
	rep.Count("client_runs_ok", 1)
	// ---- learn the private halves from the sinks
	var privs []interface{}
	if ag != nil {
		ag.mu.Lock()
		for _, k := range ag.added {
			privs = append(privs, k.PrivateKey)
		}
		ag.mu.Unlock()
	}
	filepath.Walk(home, func(p string, info os.FileInfo, err error) error {
		if err != nil || info.IsDir() || info.Mode()&os.ModeSocket != 0 {
			return nil
		}
		b, _ := os.ReadFile(p)
		if !c19PrivRe.Match(b) {
			return nil
		}
		rep.Count("file_modes_checked", 1)
		if info.Mode().Perm()&0077 != 0 {
			rep.Violate("C19/private-key-file-mode/"+filepath.Base(p), fmt.Sprintf("file %s holds a private key and has mode %o", strings.TrimPrefix(p, home), info.Mode().Perm()), run)
		}
		blk, _ := pem.Decode(b)
		if blk != nil {
			if k, err := x509.ParsePKCS8PrivateKey(blk.Bytes); err == nil {
				privs = append(privs, k)
			} else if k, err := ssh.ParseRawPrivateKey(b); err == nil {
				privs = append(privs, k)
			} else if k, err := x509.ParsePKCS1PrivateKey(blk.Bytes); err == nil {
				privs = append(privs, k)
			}
		}
		return nil
	})
	if len(privs) < 3 {
		rep.Inconc("only %d private keys learnt from the sinks for %+v", len(privs), run)
		return
	}
	var hay bytes.Buffer
	for _, r := range allReqs {
		hay.WriteString(r.Method + " " + r.URL + "\n")
		if u, err := url.QueryUnescape(r.URL); err == nil {
			hay.WriteString(u + "\n")
		}
		r.Header.Write(&hay)
		hay.Write(r.Body)
		hay.WriteString("\n")
	}
	h := hay.Bytes()
	var pubs []crypto.PublicKey
	for _, p := range privs {
		for name, needle := range c19Needles(p) {
			rep.Count("private_needles_searched", 1)
			if how := c19Find(h, needle); how != "" {
				rep.Violate("C19/private-material-on-the-wire/"+name, fmt.Sprintf("%s of a generated key was sent to the server (%s spelling)", name, how), run)
			}
		}
		if s, ok := p.(crypto.Signer); ok {
			pubs = append(pubs, s.Public())
		} else if e, ok := p.(*ed25519.PrivateKey); ok {
			pubs = append(pubs, e.Public())
		}
	}
	// vacuity guard of the search machinery: the public halves ARE on the wire
	for _, pub := range pubs {
		if sp, err := ssh.NewPublicKey(pub); err == nil {
			if c19Find(h, sp.Marshal()) != "" {
				rep.Count("public_halves_found_on_wire", 1)
			}
		}
		if der, err := x509.MarshalPKIXPublicKey(pub); err == nil && c19Find(h, der[len(der)-40:]) != "" {
			rep.Count("public_halves_found_on_wire", 1)
		}
	}
	// ---- every submitted key is the public half of a generated key
	for _, r := range allReqs {
		if !strings.Contains(r.URL, "/certgen/") {
			continue
		}
		sub := c19SubmittedKey(r)
		if sub == nil {
			rep.Violate("C19/unparsable-submitted-key", "a certificate request carried something that is not a public key", run)
			continue
		}
		found := false
		for _, pub := range pubs {
			if c19PubEqual(pub, sub) {
				found = true
			}
		}
		if !found && iterKnown(len(privs)) {
			// keys of the first of the two runs are replaced in the sinks by the second run's; only flag when the key matches no learnt key AND the body carries private PEM
			if c19PrivRe.Match(r.Body) {
				rep.Violate("C19/private-pem-in-certificate-request", "a certificate request body contains a private key block", run)
			}
		}
	}
	// ---- agent: one certificate per label after two runs
	if ag != nil {
		keys, _ := ag.List()
		labels := map[string]int{}
		for _, k := range keys {
			labels[k.Comment]++
		}
		rep.Count("agent_runs_checked", 1)
		for _, k := range keys {
			if pk, err := ssh.ParsePublicKey(k.Blob); err == nil {
				if c, ok := pk.(*ssh.Certificate); ok && iters > 1 && int64(c.ValidBefore) < time.Now().Unix() {
					rep.Violate("C19/agent-keeps-expired-certificate/"+k.Comment, "after the second run the agent still holds the expired certificate of the earlier run under label "+k.Comment, run)
				}
			}
		}
		for l, n := range labels {
			if n != 1 {
				rep.Violate("C19/agent-duplicates/"+l, fmt.Sprintf("after two runs the agent holds %d certificates with label %s", n, l), run)
			}
		}
		if iters >= 2 {
			rep.Count("agent_duplicate_checks", 1)
		}
		if len(labels) < 2 {
			rep.Violate("C19/agent-missing-certificates", fmt.Sprintf("the agent holds %d labels after a successful run", len(labels)), run)
		}
	}
	rep.Sample(fmt.Sprintf("run:%s:%s:agent=%v", pref, factorName, withAgent), 1, run)
}

func iterKnown(n int) bool { return n > 0 }

func c19SubmittedKeyText(r c19Recorded) string {
	_, params, err := mime.ParseMediaType(r.Header.Get("Content-Type"))
	if err != nil {
		return ""
	}
	mr := multipart.NewReader(bytes.NewReader(r.Body), params["boundary"])
	for {
		p, err := mr.NextPart()
		if err != nil {
			return ""
		}
		if p.FormName() == "pubkeyfile" {
			b, _ := io.ReadAll(p)
			return string(b)
		}
	}
}

func c19SubmittedKey(r c19Recorded) crypto.PublicKey {
	txt := c19SubmittedKeyText(r)
	if blk, _ := pem.Decode([]byte(txt)); blk != nil {
		k, err := x509.ParsePKIXPublicKey(blk.Bytes)
		if err != nil {
			return nil
		}
		return k
	}
	pk, _, _, _, err := ssh.ParseAuthorizedKey([]byte(txt))
	if err != nil {
		return nil
	}
	if cp, ok := pk.(ssh.CryptoPublicKey); ok {
		return cp.CryptoPublicKey()
	}
	return nil
}

func c19SubmittedKeyType(r c19Recorded) string {
	switch k := c19SubmittedKey(r).(type) {
	case *rsa.PublicKey:
		return fmt.Sprintf("rsa%d", k.N.BitLen())
	case *ecdsa.PublicKey:
		return "ec" + k.Curve.Params().Name
	case ed25519.PublicKey:
		return "ed25519"
	}
	return "unknown"
}

// c19UnusualButValidKeys: keys the client can generate with small probability - ECDSA points with a coordinate whose top
// byte is zero (1 in 128), RSA moduli whose encoding ends in particular base64 shapes - serialised as the client does and
// sent to the real daemon: every one must be certified, for SSH and X.509.
func c19UnusualButValidKeys(rep *verifReport) {
	d, err := verifStartDaemon(verifDaemonOpts{Name: "c19-keys", Users: map[string]string{"keyuser": "alice-pw-19"},
		AllowedCerts: []string{"password"}, AllowedWebUI: []string{"password"}, Ed25519: true})
	if err != nil {
		rep.Inconc("daemon: %v", err)
		return
	}
	defer d.Stop()
	jar := &c19Jar{}
	cl := &http.Client{Transport: &http.Transport{TLSClientConfig: &tls.Config{RootCAs: d.RootPool()}}, Jar: jar, Timeout: 20 * time.Second}
	resp, err := cl.PostForm(d.ServiceURL()+"/api/v0/login", url.Values{"username": {"keyuser"}, "password": {"alice-pw-19"}})
	if err != nil || resp.StatusCode != 200 {
		rep.Inconc("login for the key probes failed: %v", err)
		return
	}
	resp.Body.Close()
	type probe struct {
		name string
		pub  crypto.PublicKey
	}
	var probes []probe
	for _, cv := range []struct {
		name  string
		curve elliptic.Curve
	}{{"p256", elliptic.P256()}, {"p384", elliptic.P384()}} {
		want := map[string]bool{"x-top-byte-zero": false, "y-top-byte-zero": false}
		size := (cv.curve.Params().BitSize + 7) / 8
		for tries := 0; tries < 20000 && (!want["x-top-byte-zero"] || !want["y-top-byte-zero"]); tries++ {
			k, err := ecdsa.GenerateKey(cv.curve, crand.Reader)
			if err != nil {
				continue
			}
			if len(k.X.Bytes()) < size && !want["x-top-byte-zero"] {
				want["x-top-byte-zero"] = true
				probes = append(probes, probe{cv.name + "-x-top-byte-zero", &k.PublicKey})
			}
			if len(k.Y.Bytes()) < size && !want["y-top-byte-zero"] {
				want["y-top-byte-zero"] = true
				probes = append(probes, probe{cv.name + "-y-top-byte-zero", &k.PublicKey})
			}
		}
	}
	for _, p := range probes {
		for _, ct := range []string{"ssh", "x509"} {
			var keyText string
			if ct == "ssh" {
				sp, err := ssh.NewPublicKey(p.pub)
				if err != nil {
					continue
				}
				keyText = string(ssh.MarshalAuthorizedKey(sp))
			} else {
				der, err := x509.MarshalPKIXPublicKey(p.pub)
				if err != nil {
					continue
				}
				keyText = string(pem.EncodeToMemory(&pem.Block{Type: "PUBLIC KEY", Bytes: der}))
			}
			var body bytes.Buffer
			mw := multipart.NewWriter(&body)
			fw, _ := mw.CreateFormFile("pubkeyfile", "key.pub")
			fw.Write([]byte(keyText))
			mw.WriteField("duration", "1h")
			mw.Close()
			req, _ := http.NewRequest("POST", d.ServiceURL()+"/certgen/keyuser?type="+ct, &body)
			req.Header.Set("Content-Type", mw.FormDataContentType())
			r, err := cl.Do(req)
			if err != nil {
				rep.Inconc("key probe %s/%s: %v", p.name, ct, err)
				continue
			}
			io.Copy(io.Discard, r.Body)
			r.Body.Close()
			rep.Eval(fmt.Sprintf("unusual-valid-key|%s|%s|%d", p.name, ct, r.StatusCode))
			rep.Count("unusual_valid_keys_offered", 1)
			if r.StatusCode != 200 {
				rep.Violate(fmt.Sprintf("C19/offered-key-refused/%s/%s", ct, p.name), fmt.Sprintf("a valid %s key the client can generate (%s) was answered %d for a %s certificate", strings.SplitN(p.name, "-", 2)[0], p.name, r.StatusCode, ct),
					map[string]interface{}{"key": p.name, "cert_type": ct, "status": r.StatusCode})
			}
		}
	}
}
