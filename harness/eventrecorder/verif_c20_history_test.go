package eventrecorder

// C20 (history part) - the monitoring daemon's per-user history keeps the same
// events in the same order across a save and restart, dropping only entries
// older than its retention.  Crash points: a child process saving in a loop is
// SIGKILLed at seeded instants; the file must always decode to one of the
// histories that had been completely saved.

import (
	"crypto/x509"
	"crypto/x509/pkix"
	"fmt"
	"os"
	"os/exec"
	"path/filepath"
	"reflect"
	"sync"
	"syscall"
	"testing"
	"time"

	"github.com/Cloud-Foundations/golib/pkg/log/nulllogger"
	"golang.org/x/crypto/ssh"
)

func c20NewRecorder() *EventRecorder {
	return &EventRecorder{eventsMap: make(map[string]*eventsListType), logger: nulllogger.New()}
}

// c20History records n generated events for a user with the given create times
// (oldest first) and returns them newest first, as the recorder reports them.
func c20Record(sr *EventRecorder, user string, times []uint64, rng interface{ Intn(int) int }) {
	for _, ct := range times {
		switch rng.Intn(4) {
		case 0:
			sr.recordAuthEvent(user, uint(1+rng.Intn(4)), uint8(rng.Intn(2)))
		case 1:
			sr.recordCertEvent(user, time.Duration(1+rng.Intn(90000))*time.Second, rng.Intn(2) == 0, rng.Intn(2) == 0)
		case 2:
			sr.recordSPLoginEvent(user, fmt.Sprintf("https://sp%d.example.com/cb", rng.Intn(50)))
		default:
			sr.recordWebLoginEvent(user)
		}
		sr.eventsMap[user].newest.CreateTime = ct // when it happened
	}
}

func c20View(sr *EventRecorder) EventsMap {
	var last *Events
	return sr.getEventsList(&last).Events
}

func TestVerifC20(t *testing.T) {
	if os.Getenv("VERIF_C20_CHILD") != "" {
		c20Child()
		return
	}
	rep := newVerifReport("C20", "(history) generated per-user event lists (random kinds, monotonic create times around the retention edge) recorded by the real recorder, saved, loaded by a fresh recorder: the list after load == the list before, same order, minus entries older than retention, also after a second save/load cycle; expiry of old events drops exactly the stale ones, and fresh events recorded afterwards survive the next expiry and a restart; a child process saving growing histories in a loop is SIGKILLed at seeded instants and the file must decode to a completely saved history; the real 5-second save timer path through the public channels, once per event kind as the last event after an answered events request, then restart; class = (events per user, stale share, cycle)")
	defer rep.Finish()
	rng := verifRand("c20hist")
	dir, _ := os.MkdirTemp("", "verif-c20-")
	defer os.RemoveAll(dir)
	n := 150
	if verifThorough() {
		n = 6000
	}
	now := uint64(time.Now().Unix())
	retention := uint64(durationMonth / time.Second)
	for i := 0; i < n; i++ {
		sr := c20NewRecorder()
		nUsers := 1 + rng.Intn(4)
		expect := EventsMap{}
		staleTotal := 0
		maxLen := 0
		for u := 0; u < nUsers; u++ {
			user := fmt.Sprintf("user%d", u)
			k := rng.Intn(12)
			// monotonic create times; start somewhere before / at / after the retention edge
			start := now - retention - uint64(rng.Intn(5000)) + uint64(rng.Intn(2)*9000)
			var times []uint64
			tcur := start
			for j := 0; j < k; j++ {
				tcur += uint64(rng.Intn(3000))
				if tcur > now {
					tcur = now
				}
				times = append(times, tcur)
			}
			c20Record(sr, user, times, rng)
			if k > maxLen {
				maxLen = k
			}
		}
		before := c20View(sr)
		for user, evs := range before {
			var keep []EventType
			for _, e := range evs {
				// a margin of 2 s around the edge is left undecided (the loader reads the clock itself)
				if e.CreateTime+2 < now-retention {
					staleTotal++
					continue
				}
				keep = append(keep, e)
			}
			if keep == nil {
				keep = []EventType{}
			}
			expect[user] = keep
		}
		file := filepath.Join(dir, fmt.Sprintf("h%d.gob", i))
		cycleOK := true
		cur := before
		for cycle := 1; cycle <= 2 && cycleOK; cycle++ {
			if err := saveEvents(file, cur); err != nil {
				rep.Violate("C20/history/save-failed", err.Error(), nil)
				cycleOK = false
				break
			}
			m, err := loadEvents(file)
			if err != nil {
				rep.Violate("C20/history/load-failed", err.Error(), nil)
				cycleOK = false
				break
			}
			sr2 := c20NewRecorder()
			sr2.eventsMap = m
			after := c20View(sr2)
			rep.Eval(fmt.Sprintf("history|len<=%d|stale=%v|cycle=%d", (maxLen+3)/4*4, staleTotal > 0, cycle))
			// compare, tolerating the undecided margin: every expected entry present in order; nothing else except margin entries
			for user, want := range expect {
				got := after[user]
				if !c20SameOrder(want, got, now-retention) {
					rep.Violate(fmt.Sprintf("C20/history/order-or-content-changed/cycle=%d", cycle), "the per-user history after save+load differs from the recorded one (order or content)",
						map[string]interface{}{"user": user, "recorded_newest_first": c20Brief(want), "after_load_newest_first": c20Brief(got), "cycle": cycle})
					cycleOK = false
					break
				}
			}
			cur = after
		}
		// a restarted recorder keeps running: fresh events arrive, time passes until the oldest reloaded entry of each
		// user is past retention (its create time is moved, which is what the passing of time amounts to), and the
		// hourly expiry runs: exactly that entry goes, everything younger stays, in order
		if cycleOK {
			if m, err := loadEvents(file); err == nil {
				sr3 := c20NewRecorder()
				sr3.eventsMap = m
				wantAfter := EventsMap{}
				for user := range expect {
					c20Record(sr3, user, []uint64{now - 30}, rng)
					l := sr3.eventsMap[user]
					v := c20View(sr3)[user]
					if l == nil || l.oldest == nil || len(v) < 2 {
						continue
					}
					l.oldest.CreateTime = now - retention - 100
					wantAfter[user] = append([]EventType{}, v[:len(v)-1]...)
				}
				sr3.expireOldEvents()
				got := c20View(sr3)
				for user, w := range wantAfter {
					rep.Count("reload_then_expiry_checked", 1)
					if !c20SameOrder(w, got[user], now-retention) {
						rep.Violate("C20/history/expiry-after-reload-drops-younger-events", "after a restart, the expiry of a user's oldest entry took younger entries (or events recorded since the restart) with it",
							map[string]interface{}{"user": user, "want_newest_first": c20Brief(w), "got": c20Brief(got[user])})
					}
				}
			}
		}
		if cycleOK {
			rep.Count("histories_roundtripped", 1)
			if i < 3 {
				rep.Sample("history", 3, map[string]interface{}{"users": nUsers, "stale_entries_dropped": staleTotal})
			}
		}
		// expiry on a live recorder drops exactly the stale ones
		if sr.expireOldEvents() || staleTotal == 0 {
			live := c20View(sr)
			for user, want := range expect {
				if !c20SameOrder(want, live[user], now-retention) {
					rep.Violate("C20/history/expire-wrong", "expiring old events dropped other than the stale entries", map[string]interface{}{"user": user, "want": c20Brief(want), "got": c20Brief(live[user])})
				}
			}
			rep.Count("expiries_checked", 1)
			// the users come back after the expiry (also those whose whole history had just expired): fresh events, then
			// the next hourly expiry; nothing fresh may be lost and the order is kept
			want2 := EventsMap{}
			for user := range expect {
				before := append([]EventType{}, live[user]...)
				c20Record(sr, user, []uint64{now - 20, now - 10}, rng)
				after := c20View(sr)[user]
				if len(after) < 2 {
					rep.Violate("C20/history/fresh-events-not-recorded", "events recorded after an expiry do not show in the live view", map[string]interface{}{"user": user, "view": c20Brief(after)})
					continue
				}
				want2[user] = append(append([]EventType{}, after[:2]...), before...)
			}
			sr.expireOldEvents()
			live2 := c20View(sr)
			okAll := true
			for user, w := range want2 {
				if !c20SameOrder(w, live2[user], now-retention) {
					okAll = false
					rep.Violate("C20/history/second-expiry-drops-fresh-events", "after a user's old history expired, the next expiry dropped (or reordered) events recorded since",
						map[string]interface{}{"user": user, "want_newest_first": c20Brief(w), "got": c20Brief(live2[user])})
				}
			}
			if okAll {
				rep.Count("second_expiries_checked", 1)
			}
			// and the same after a save / load
			f2 := filepath.Join(dir, fmt.Sprintf("h%d-after-expiry.gob", i))
			if err := saveEvents(f2, live2); err == nil {
				if m, err := loadEvents(f2); err == nil {
					sr3 := c20NewRecorder()
					sr3.eventsMap = m
					got3 := c20View(sr3)
					for user, w := range want2 {
						if !c20SameOrder(w, got3[user], now-retention) {
							rep.Violate("C20/history/fresh-events-lost-across-restart", "events recorded after an expiry are missing or reordered after save and load",
								map[string]interface{}{"user": user, "want_newest_first": c20Brief(w), "got": c20Brief(got3[user])})
						}
					}
				}
				os.Remove(f2)
			}
		}
	}
	// ---- public channels + the real 5 s save timer + restart: one live recorder per event kind, all at once.  Each
	// gets a mixed prefix of every kind, is asked for its events (the recorder keeps a snapshot), then receives one last
	// event of its kind with nothing after it, is asked again, is left alone until its save timer has fired, and is
	// restarted from the file: the last event must be in the live view and in the history after the restart.
	{
		type kind struct {
			name  string
			send  func(r *EventRecorder, user string, i int)
			match func(e EventType) bool
		}
		kinds := []kind{
			{"auth", func(r *EventRecorder, u string, i int) {
				r.AuthChannel <- &AuthInfo{AuthType: AuthTypeU2F, Username: u}
			}, func(e EventType) bool {
				return e.AuthType == AuthTypeU2F && !e.Ssh && !e.X509 && !e.WebLogin && e.ServiceProviderUrl == ""
			}},
			{"web-login", func(r *EventRecorder, u string, i int) { r.WebLoginChannel <- u }, func(e EventType) bool { return e.WebLogin }},
			{"service-provider-login", func(r *EventRecorder, u string, i int) {
				r.ServiceProviderLoginChannel <- &SPLoginInfo{URL: fmt.Sprintf("https://sp%d/", i), Username: u}
			}, func(e EventType) bool { return e.ServiceProviderUrl != "" }},
			{"ssh-cert", func(r *EventRecorder, u string, i int) {
				r.SshCertChannel <- &ssh.Certificate{ValidPrincipals: []string{u}, ValidBefore: uint64(time.Now().Add(time.Hour).Unix())}
			}, func(e EventType) bool { return e.Ssh }},
			{"x509-cert", func(r *EventRecorder, u string, i int) {
				r.X509CertChannel <- &x509.Certificate{Subject: pkix.Name{CommonName: u}, NotAfter: time.Now().Add(time.Hour)}
			}, func(e EventType) bool { return e.X509 }},
		}
		// ask returns the recorder's answer to one events request (nil, false when it did not answer in 10 s)
		ask := func(r *EventRecorder, user string) ([]EventType, bool) {
			ch := make(chan Events, 1)
			r.RequestEventsChannel <- ch
			select {
			case e := <-ch:
				return e.Events[user], true
			case <-time.After(10 * time.Second):
				return nil, false
			}
		}
		// askUntil repeats the request until the view holds n events.  The recorder serves its channels from one select:
		// every ANSWERED request is a draw in which the request channel was picked although an event was waiting on
		// another channel; 80 such draws in a row have probability < 2^-80, so the verdict counts answers, not seconds.
		askUntil := func(r *EventRecorder, user string, n int) (view []EventType, answered int, ok bool) {
			for answered < 80 {
				v, got := ask(r, user)
				if !got {
					return view, answered, false
				}
				answered++
				view = v
				if len(v) >= n {
					return v, answered, true
				}
			}
			return view, answered, true
		}
		var wg sync.WaitGroup
		for ki, k := range kinds {
			wg.Add(1)
			go func(ki int, k kind) {
				defer wg.Done()
				user := "live-" + k.name
				file := filepath.Join(dir, "live-"+k.name+".gob")
				sr, err := New(file, nulllogger.New())
				if err != nil {
					rep.Inconc("recorder: %v", err)
					return
				}
				sent := 0
				for round := 0; round < 3; round++ {
					for i, kk := range kinds {
						kk.send(sr, user, round*10+i)
						sent++
					}
				}
				mid, a1, ok1 := askUntil(sr, user, sent)
				if !ok1 {
					rep.Inconc("live recorder (%s) did not answer an events request within 10 s", k.name)
					return
				}
				k.send(sr, user, 99)
				sent++
				before, a2, ok2 := askUntil(sr, user, sent)
				if !ok2 {
					rep.Inconc("live recorder (%s) did not answer an events request within 10 s", k.name)
					return
				}
				c := map[string]interface{}{"last_event_kind": k.name, "events_sent": sent, "view_before_last": len(mid), "view_after_last": c20Brief(before),
					"requests_answered_before_last": a1, "requests_answered_after_last": a2}
				rep.Eval(fmt.Sprintf("history|live|last=%s|complete=%v", k.name, len(before) == sent))
				if len(mid) != sent-1 {
					rep.Violate("C20/history/live-view-incomplete/"+k.name, "the recorder's live view does not hold every event it was sent, after 80 answered requests", c)
					return
				}
				if len(before) != sent || !k.match(before[0]) {
					rep.Violate("C20/history/last-event-missing-from-view/"+k.name, "an event received after the recorder had answered an events request is still missing from its answers 80 requests later", c)
					return
				}
				time.Sleep(6500 * time.Millisecond) // the recorder saves 5 s after the last event
				sr2, err := New(file, nulllogger.New())
				if err != nil {
					rep.Violate("C20/history/restart-load-failed/"+k.name, err.Error(), c)
					return
				}
				after, _ := ask(sr2, user)
				c["after_restart"] = c20Brief(after)
				rep.Eval(fmt.Sprintf("history|live-restart|last=%s|events=%d/%d", k.name, len(after), sent))
				if !reflect.DeepEqual(before, after) {
					rep.Violate("C20/history/restart-differs/"+k.name, "history after a restart of the recorder differs from the one before (the recorder had 6.5 s to save after its last event)", c)
				} else {
					rep.Count("live_restart_ok", 1)
					rep.Sample("live-restart:"+k.name, 1, c)
				}
			}(ki, k)
		}
		wg.Wait()
	}
	// ---- crash points
	kills := 12
	if verifThorough() {
		kills = 150
	}
	for k := 0; k < kills; k++ {
		file := filepath.Join(dir, fmt.Sprintf("crash%d.gob", k))
		cmd := exec.Command(os.Args[0], "-test.run", "^TestVerifC20$")
		cmd.Env = append(os.Environ(), "VERIF_C20_CHILD="+file)
		if err := cmd.Start(); err != nil {
			rep.Inconc("cannot start child: %v", err)
			break
		}
		time.Sleep(time.Duration(30+rng.Intn(250)) * time.Millisecond)
		cmd.Process.Signal(syscall.SIGKILL)
		cmd.Wait()
		m, err := loadEvents(file)
		if os.IsNotExist(err) {
			rep.Eval("crash|no-file-yet")
			continue
		}
		rep.Eval(fmt.Sprintf("crash|decoded=%v", err == nil))
		rep.Count("kills_with_file", 1)
		if err != nil {
			rep.Violate("C20/history/crash-corrupts-file", "after a SIGKILL during save loops the history file does not decode: "+err.Error(), map[string]int{"kill": k})
			continue
		}
		// a complete history i has i events for user "crash", with lifetimes 1..i
		sr2 := c20NewRecorder()
		sr2.eventsMap = m
		evs := c20View(sr2)["crash"]
		okh := true
		seen := map[uint32]bool{}
		for _, e := range evs {
			seen[e.LifetimeSeconds] = true
		}
		for j := 1; j <= len(evs); j++ {
			if !seen[uint32(j)] {
				okh = false
			}
		}
		if !okh {
			rep.Violate("C20/history/crash-mixes-histories", "after a SIGKILL the file holds a history that was never completely saved", map[string]interface{}{"events": c20Brief(evs)})
		} else {
			rep.Count("crash_files_consistent", 1)
		}
	}
	rep.Floor("histories_roundtripped", 100)
	rep.Floor("expiries_checked", 50)
	rep.Floor("second_expiries_checked", 50)
	rep.Floor("reload_then_expiry_checked", 50)
	rep.Floor("live_restart_ok", 5)
	rep.Floor("crash_files_consistent", 3)
}

func c20Child() {
	file := os.Getenv("VERIF_C20_CHILD")
	sr := c20NewRecorder()
	for i := 1; ; i++ {
		sr.recordCertEvent("crash", time.Duration(i)*time.Second, true, false)
		sr.eventsMap["crash"].newest.LifetimeSeconds = uint32(i)
		var last *Events
		saveEvents(file, sr.getEventsList(&last).Events)
	}
}

// c20SameOrder: got must equal want, except that entries whose create time lies
// within 3 s of the retention edge (see below) may be present or absent.
// (edge is the retention edge when the case list was generated; the recorder computes its own edge from the clock at the
// moment it loads or expires, which is later: entries between the two edges may legitimately be present or absent.)
func c20SameOrder(want, got []EventType, edge uint64) bool {
	i, j := 0, 0
	edgeNow := uint64(time.Now().Unix()) - uint64(durationMonth/time.Second)
	near := func(e EventType) bool { return e.CreateTime+3 >= edge && e.CreateTime <= edgeNow+3 }
	for i < len(want) || j < len(got) {
		switch {
		case i < len(want) && j < len(got) && reflect.DeepEqual(want[i], got[j]):
			i++
			j++
		case i < len(want) && near(want[i]):
			i++
		case j < len(got) && near(got[j]):
			j++
		default:
			return false
		}
	}
	return true
}

func c20Brief(evs []EventType) []string {
	var o []string
	for _, e := range evs {
		kind := "auth"
		switch {
		case e.Ssh || e.X509:
			kind = fmt.Sprintf("cert(%ds)", e.LifetimeSeconds)
		case e.ServiceProviderUrl != "":
			kind = "sp:" + e.ServiceProviderUrl
		case e.WebLogin:
			kind = "web"
		}
		o = append(o, fmt.Sprintf("%s@%d", kind, e.CreateTime))
	}
	return o
}
