package httpd

// C20 (history clause), the monitoring daemon's report page: keymaster-eventmond serves /showActivity from the
// recorder's own snapshot of the per-user histories.  Reading a report must not change what the recorder saves:
// events are recorded through the recorder's public channels, the report is fetched (several times, also right after
// the last event, before the deferred save), the 5-s save is awaited and a new recorder is started on the same file -
// every user's history must come back with the same events in the same order.

import (
	"fmt"
	"net/http/httptest"
	"path/filepath"
	"reflect"
	"testing"
	"time"

	"github.com/Cloud-Foundations/golib/pkg/log/nulllogger"
	"github.com/Cloud-Foundations/keymaster/eventmon/eventrecorder"
)

func c20aEvents(rec *eventrecorder.EventRecorder) (eventrecorder.EventsMap, bool) {
	ch := make(chan eventrecorder.Events, 1)
	select {
	case rec.RequestEventsChannel <- ch:
	case <-time.After(10 * time.Second):
		return nil, false
	}
	select {
	case ev := <-ch:
		return ev.Events, true
	case <-time.After(10 * time.Second):
		return nil, false
	}
}

func c20aBrief(evs []eventrecorder.EventType) []string {
	var o []string
	for _, e := range evs {
		k := fmt.Sprintf("auth(%d)", e.AuthType)
		switch {
		case e.ServiceProviderUrl != "":
			k = "sp:" + e.ServiceProviderUrl
		case e.WebLogin:
			k = "web"
		}
		o = append(o, fmt.Sprintf("%s@%d", k, e.CreateTime))
	}
	return o
}

func TestVerifC20Activity(t *testing.T) {
	rep := newVerifReport("C20", "(history, report page) events for several users recorded through the recorder's public channels over three seconds; /showActivity fetched between and after the events (before the deferred save); after the 5-s save a new recorder on the same file must return every user's events in the same order; class = (phase, users, outcome)")
	defer rep.Finish()
	rounds := 1
	if verifThorough() {
		rounds = 4
	}
	for round := 0; round < rounds; round++ {
		file := filepath.Join(t.TempDir(), fmt.Sprintf("events-%d.gob", round))
		rec, err := eventrecorder.New(file, nulllogger.New())
		if err != nil {
			rep.Inconc("recorder: %v", err)
			return
		}
		s := state{eventRecorder: rec}
		users := []string{"alice", "bob", "carol"}
		fetch := func(when string) {
			w := httptest.NewRecorder()
			s.showActivityHandler(w, httptest.NewRequest("GET", "/showActivity", nil))
			rep.Eval(fmt.Sprintf("report|%s|status=%d|bytes>0=%v", when, w.Code, w.Body.Len() > 0))
			rep.Count("reports_fetched", 1)
		}
		n := 0
		for group := 0; group < 3; group++ {
			for _, u := range users {
				for k := 0; k <= group; k++ {
					n++
					switch n % 3 {
					case 0:
						rec.WebLoginChannel <- u
					case 1:
						rec.ServiceProviderLoginChannel <- &eventrecorder.SPLoginInfo{URL: fmt.Sprintf("https://sp.example/%d", n), Username: u}
					default:
						rec.AuthChannel <- &eventrecorder.AuthInfo{AuthType: eventrecorder.AuthTypeU2F, Username: u}
					}
				}
			}
			if group < 2 {
				fetch("between-events")
				time.Sleep(1100 * time.Millisecond) // events of the next group carry a later second
			}
		}
		// every event has been consumed once an events request sent after them is answered twice in a row with the
		// full count (the recorder serves its channels from one select)
		var before eventrecorder.EventsMap
		for try := 0; try < 200; try++ {
			m, ok := c20aEvents(rec)
			if !ok {
				rep.Inconc("the recorder did not answer an events request")
				return
			}
			total := 0
			for _, evs := range m {
				total += len(evs)
			}
			if total == n {
				before = m
				break
			}
			time.Sleep(10 * time.Millisecond)
		}
		if before == nil {
			rep.Inconc("the recorder never showed all %d events", n)
			return
		}
		// deep copy: the report is given the same kind of snapshot
		want := eventrecorder.EventsMap{}
		for u, evs := range before {
			want[u] = append([]eventrecorder.EventType{}, evs...)
		}
		fetch("after-last-event")
		fetch("after-last-event")
		mid, _ := c20aEvents(rec)
		for _, u := range users {
			rep.Eval(fmt.Sprintf("view-after-report|%s|same=%v", u, reflect.DeepEqual(want[u], mid[u])))
			if !reflect.DeepEqual(want[u], mid[u]) {
				rep.Violate("C20/history/report-changes-live-view", "a user's history as the recorder reports it changed after the activity report was fetched",
					map[string]interface{}{"user": u, "before": c20aBrief(want[u]), "after": c20aBrief(mid[u])})
			}
		}
		time.Sleep(6500 * time.Millisecond) // the deferred save (5 s after the last event)
		fetch("after-save")
		rec2, err := eventrecorder.New(file, nulllogger.New())
		if err != nil {
			rep.Violate("C20/history/restart-load-failed/after-report", err.Error(), nil)
			continue
		}
		after, ok := c20aEvents(rec2)
		if !ok {
			rep.Inconc("the restarted recorder did not answer an events request")
			return
		}
		for _, u := range users {
			same := reflect.DeepEqual(want[u], after[u])
			rep.Eval(fmt.Sprintf("restart-after-report|%s|events=%d|same=%v", u, len(want[u]), same))
			if !same {
				rep.Violate("C20/history/restart-differs-after-activity-report", "after the activity report was fetched, the save and a restart a user's history came back different (events or order)",
					map[string]interface{}{"user": u, "before": c20aBrief(want[u]), "after_restart": c20aBrief(after[u])})
			} else {
				rep.Count("histories_same_after_report_and_restart", 1)
			}
		}
	}
	rep.Floor("reports_fetched", 5)
	rep.Floor("histories_same_after_report_and_restart", 3)
}
