package main

// Fake LDAPS directory (external party) built on vjeantet/ldapserver: password
// binds, group / attribute searches, per-server failure modes.  Its run-time
// certificate is made trusted through SSL_CERT_FILE because the code paths
// under test hard-code rootCAs=nil (system trust).

import (
	"crypto/ecdsa"
	"crypto/elliptic"
	"crypto/rand"
	"crypto/tls"
	"crypto/x509"
	"crypto/x509/pkix"
	"encoding/pem"
	"fmt"
	"math/big"
	"net"
	"os"
	"regexp"
	"strings"
	"sync"
	"time"

	ldapmsg "github.com/lor00x/goldap/message"
	ldapsrv "github.com/vjeantet/ldapserver"
)

const (
	verifLDAPBindPattern = "uid=%s,ou=people,dc=verif,dc=test"
	verifLDAPPeopleDN    = "ou=people,dc=verif,dc=test"
	verifLDAPGroupsDN    = "ou=groups,dc=verif,dc=test"
	verifLDAPReaderDN    = "cn=reader,dc=verif,dc=test"
	verifLDAPReaderPW    = "reader-pw"
)

type verifDirectory struct {
	mu        sync.Mutex
	Passwords map[string]string
	Groups    map[string][]string
	Servers   []*verifLDAPServer
	Binds     int // user binds that reached a verdict
	Searches  int
	hold      chan struct{}
	waiting   int
	acctState map[string]string // user -> Active Directory sub-code of an account the directory refuses
}

// SetAccountState: the directory refuses every bind of the user with result code 49 and Active Directory's diagnostic
// for the given sub-code ("" = normal again; user "" = clear all).
func (d *verifDirectory) SetAccountState(user, subCode string) {
	d.mu.Lock()
	defer d.mu.Unlock()
	if user == "" {
		d.acctState = nil
		return
	}
	if d.acctState == nil {
		d.acctState = map[string]string{}
	}
	if subCode == "" {
		delete(d.acctState, user)
	} else {
		d.acctState[user] = subCode
	}
}

type verifLDAPServer struct {
	dir  *verifDirectory
	Addr string
	mode string // up | down | error
	srv  *ldapsrv.Server
}

type verifModeListener struct {
	net.Listener
	s *verifLDAPServer
}

func (l verifModeListener) Accept() (net.Conn, error) {
	for {
		c, err := l.Listener.Accept()
		if err != nil {
			return nil, err
		}
		l.s.dir.mu.Lock()
		down := l.s.mode == "down"
		l.s.dir.mu.Unlock()
		if down {
			c.Close() // the client sees a failed handshake: "server does not answer"
			continue
		}
		return c, nil
	}
}

var verifLDAPTLSOnce sync.Once
var verifLDAPTLS *tls.Config

// verifLDAPTLSConfig creates the directory's certificate and makes it part of
// the process's system trust (SSL_CERT_FILE must point at a writable path and
// nothing may have loaded the system roots yet).
func verifLDAPTLSConfig() *tls.Config {
	verifLDAPTLSOnce.Do(func() {
		k, _ := ecdsa.GenerateKey(elliptic.P256(), rand.Reader)
		tmpl := &x509.Certificate{SerialNumber: big.NewInt(time.Now().UnixNano()),
			Subject: pkix.Name{CommonName: "verif directory"}, NotBefore: time.Now().Add(-time.Hour), NotAfter: time.Now().Add(100 * time.Hour),
			KeyUsage: x509.KeyUsageDigitalSignature | x509.KeyUsageCertSign, ExtKeyUsage: []x509.ExtKeyUsage{x509.ExtKeyUsageServerAuth},
			IsCA: true, BasicConstraintsValid: true, IPAddresses: []net.IP{net.ParseIP("127.0.0.1")}, DNSNames: []string{"localhost"}}
		der, err := x509.CreateCertificate(rand.Reader, tmpl, tmpl, &k.PublicKey, k)
		if err != nil {
			panic(err)
		}
		path := os.Getenv("SSL_CERT_FILE")
		if path == "" {
			panic("SSL_CERT_FILE must be set by the driver for the LDAP fake")
		}
		if err := os.WriteFile(path, pem.EncodeToMemory(&pem.Block{Type: "CERTIFICATE", Bytes: der}), 0644); err != nil {
			panic(err)
		}
		verifLDAPTLS = &tls.Config{Certificates: []tls.Certificate{{Certificate: [][]byte{der}, PrivateKey: k}}, MinVersion: tls.VersionTLS12}
	})
	return verifLDAPTLS
}

var ldapFilterUserRe = regexp.MustCompile(`=([^)=*]+)\)`)

func newVerifDirectory(nServers int) *verifDirectory {
	ldapsrv.Logger = ldapsrv.DiscardingLogger
	d := &verifDirectory{Passwords: map[string]string{}, Groups: map[string][]string{}}
	cfg := verifLDAPTLSConfig()
	for i := 0; i < nServers; i++ {
		s := &verifLDAPServer{dir: d, mode: "up"}
		srv := ldapsrv.NewServer()
		routes := ldapsrv.NewRouteMux()
		routes.Bind(s.handleBind)
		routes.Search(s.handleGroupSearch).BaseDn(verifLDAPGroupsDN).Label("groups")
		routes.Search(s.handleUserSearch).Label("users")
		srv.Handle(routes)
		ready := make(chan struct{})
		opt := func(sv *ldapsrv.Server) {
			s.Addr = sv.Listener.Addr().String()
			sv.Listener = verifModeListener{tls.NewListener(sv.Listener, cfg), s}
			close(ready)
		}
		s.srv = srv
		go srv.ListenAndServe("127.0.0.1:0", opt)
		<-ready
		d.Servers = append(d.Servers, s)
	}
	return d
}

func (d *verifDirectory) URLs() string {
	var u []string
	for _, s := range d.Servers {
		u = append(u, "ldaps://"+s.Addr)
	}
	return strings.Join(u, ",")
}

func (d *verifDirectory) SetMode(i int, mode string) {
	d.mu.Lock()
	d.Servers[i].mode = mode
	d.mu.Unlock()
}

func (d *verifDirectory) SetAll(mode string) {
	d.mu.Lock()
	for _, s := range d.Servers {
		s.mode = mode
	}
	d.mu.Unlock()
}

func (d *verifDirectory) SetPassword(user, pw string) {
	d.mu.Lock()
	d.Passwords[user] = pw
	d.mu.Unlock()
}

func (d *verifDirectory) SetGroups(user string, groups []string) {
	d.mu.Lock()
	d.Groups[user] = groups
	d.mu.Unlock()
}

func (d *verifDirectory) Counts() (binds, searches int) {
	d.mu.Lock()
	defer d.mu.Unlock()
	return d.Binds, d.Searches
}

func (s *verifLDAPServer) handleBind(w ldapsrv.ResponseWriter, m *ldapsrv.Message) {
	r := m.GetBindRequest()
	d := s.dir
	d.mu.Lock()
	defer d.mu.Unlock()
	if s.mode == "error" {
		res := ldapsrv.NewBindResponse(ldapsrv.LDAPResultUnavailable)
		res.SetDiagnosticMessage("directory unavailable")
		w.Write(res)
		return
	}
	name, pw := string(r.Name()), string(r.AuthenticationSimple())
	ok := false
	if name == verifLDAPReaderDN {
		ok = pw == verifLDAPReaderPW
	} else {
		var user string
		if n, _ := fmt.Sscanf(name, "uid=%s", &user); n == 1 {
			user = strings.TrimSuffix(user, ","+verifLDAPPeopleDN)
			// directory attribute matching is case-insensitive, as in real LDAP servers
			want, exists := d.Passwords[strings.ToLower(user)]
			ok = exists && pw != "" && pw == want && strings.EqualFold(name, fmt.Sprintf(verifLDAPBindPattern, user))
			if sub := d.acctState[strings.ToLower(user)]; sub != "" {
				d.Binds++
				res := ldapsrv.NewBindResponse(ldapsrv.LDAPResultInvalidCredentials)
				res.SetDiagnosticMessage("80090308: LdapErr: DSID-0C090446, comment: AcceptSecurityContext error, data " + sub + ", v2580")
				w.Write(res)
				return
			}
		}
		d.Binds++
	}
	if ok {
		w.Write(ldapsrv.NewBindResponse(ldapsrv.LDAPResultSuccess))
		return
	}
	res := ldapsrv.NewBindResponse(ldapsrv.LDAPResultInvalidCredentials)
	res.SetDiagnosticMessage("Invalid Credentials")
	w.Write(res)
}

// Hold makes every group search wait (a slow directory) until the returned function is called; Waiting reports how
// many searches are parked.
func (d *verifDirectory) Hold() (release func()) {
	ch := make(chan struct{})
	d.mu.Lock()
	d.hold = ch
	d.mu.Unlock()
	return func() {
		d.mu.Lock()
		if d.hold == ch {
			d.hold = nil
		}
		d.mu.Unlock()
		close(ch)
	}
}

func (d *verifDirectory) Waiting() int {
	d.mu.Lock()
	defer d.mu.Unlock()
	return d.waiting
}

func (s *verifLDAPServer) handleGroupSearch(w ldapsrv.ResponseWriter, m *ldapsrv.Message) {
	r := m.GetSearchRequest()
	d := s.dir
	d.mu.Lock()
	if ch := d.hold; ch != nil {
		d.waiting++
		d.mu.Unlock()
		<-ch
		d.mu.Lock()
		d.waiting--
	}
	defer d.mu.Unlock()
	d.Searches++
	if s.mode == "error" {
		w.Write(ldapsrv.NewSearchResultDoneResponse(ldapsrv.LDAPResultUnavailable))
		return
	}
	user := ""
	if mm := ldapFilterUserRe.FindStringSubmatch(r.FilterString()); mm != nil {
		user = mm[1]
	}
	for _, g := range d.Groups[user] {
		e := ldapsrv.NewSearchResultEntry("cn=" + g + "," + verifLDAPGroupsDN)
		e.AddAttribute("cn", ldapsrvAttr(g))
		w.Write(e)
	}
	w.Write(ldapsrv.NewSearchResultDoneResponse(ldapsrv.LDAPResultSuccess))
}

func (s *verifLDAPServer) handleUserSearch(w ldapsrv.ResponseWriter, m *ldapsrv.Message) {
	r := m.GetSearchRequest()
	d := s.dir
	d.mu.Lock()
	defer d.mu.Unlock()
	d.Searches++
	if s.mode == "error" {
		w.Write(ldapsrv.NewSearchResultDoneResponse(ldapsrv.LDAPResultUnavailable))
		return
	}
	user := ""
	if mm := ldapFilterUserRe.FindStringSubmatch(r.FilterString()); mm != nil {
		user = mm[1]
	}
	if _, ok := d.Passwords[user]; ok {
		e := ldapsrv.NewSearchResultEntry(fmt.Sprintf(verifLDAPBindPattern, user))
		e.AddAttribute("mail", ldapsrvAttr(user+"@mail.verif.test"))
		e.AddAttribute("uid", ldapsrvAttr(user))
		w.Write(e)
	}
	w.Write(ldapsrv.NewSearchResultDoneResponse(ldapsrv.LDAPResultSuccess))
}

// userinfo_sources yaml for a deployment that reads groups from this directory
func (d *verifDirectory) UserInfoYAML() string {
	return fmt.Sprintf("userinfo_sources:\n    ldap:\n        bind_username: %q\n        bind_password: %q\n        ldap_target_urls: %q\n        user_search_base_dns: [%q]\n        user_search_filter: \"(uid=%%s)\"\n        group_search_base_dns: [%q]\n        group_search_filter: \"(memberUid=%%s)\"\n",
		verifLDAPReaderDN, verifLDAPReaderPW, d.URLs(), verifLDAPPeopleDN, verifLDAPGroupsDN)
}

// password backend yaml
func (d *verifDirectory) PasswordYAML(disableCache bool) string {
	return fmt.Sprintf("ldap:\n    bind_pattern: %q\n    ldap_target_urls: %q\n    disable_password_cache: %v\n", verifLDAPBindPattern, d.URLs(), disableCache)
}

func ldapsrvAttr(s string) ldapmsg.AttributeValue { return ldapmsg.AttributeValue(s) }
