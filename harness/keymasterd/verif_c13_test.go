package main

// C13 - authorization codes are redirected only to the client's own https
// hosts.  Every generated redirect_uri goes through the real
// /idp/oauth2/authorize endpoint with a valid session; whenever the server
// redirects (code leaves), a WHATWG-style reader decides which host a browser
// would contact for the Location it emitted.  The oracle flags only when it is
// certain (parsable and off-list / not https / has query / has '..').

import (
	"fmt"
	"net/url"
	"regexp"
	"strings"
	"testing"
)

type c13Client struct {
	ID       string
	Domains  []string
	Patterns []string
}

type c13Case struct {
	Client   string `json:"client"`
	Redirect string `json:"redirect_uri"`
	Status   int    `json:"status"`
	Location string `json:"location,omitempty"`
	Browser  string `json:"browser_would_contact,omitempty"`
	Note     string `json:"note,omitempty"`
}

func c13Grammar(rng interface{ Intn(int) int }, n int) []string {
	schemes := []string{"https://", "https://", "https://", "HTTPS://", "http://", "ftp://", "javascript://", "https:", "https:/", "https:///", "https:\\\\", "//", "", "hTtPs://", "https ://", "httpss://"}
	users := []string{"", "", "", "user@", "example.com@", "example.com:pw@", "a@b@", "app.example.com%40", "app.example.com\\@", "@"}
	hosts := []string{"example.com", "app.example.com", "a.b.example.com", "evilexample.com", "example.com.evil.net", "example.comx", "EXAMPLE.COM", "App.Example.Com",
		"example.com.", "app.example.com.", "evil.net", "evil.net.", "example.com%2eevil.net", "evil.net%23.example.com", "evil.net%2f.example.com", "evil.net\\.example.com",
		"evil.net\\@app.example.com", "evil.net?.example.com", "evil.net#.example.com", "evil.net/.example.com", "[::1]", "127.0.0.1", "xn--exmple-cua.com", "exаmple.com", ".example.com", "-example.com", "example.com-evil.net",
		"notexample.com", "example.com@evil.net", "evil.net\t.example.com", "evil.net%09.example.com", "exam\tple.com", "example.org", "app.example.org", "other.test", "app.other.test", "evilother.test", "example.co", "com", "localhost", "partner.test", "app.partner.test", "zeta.test", "solo.test", "app.solo.test", "evilsolo.test"}
	ports := []string{"", "", "", ":443", ":8443", ":0", ":99999", ":", ":80@evil.net", ":443\\@evil.net", ":x"}
	paths := []string{"", "/", "/cb", "/cb/", "/a/../b", "/a/%2e%2e/b", "/..", "/.%2e/x", "/%2E%2E/x", "/a;b", "//evil.net", "/\\evil.net", "/cb/..", "/...", "/a..b", "/.well-known/x", "/cb%3Fx=1", "/\t../x", "/a/..\\..\\b", "/cb/..\\x", "/a\\..\\b", "/a/.%2e\\b", "/a\\../b", "/..\\"}
	tails := []string{"", "", "", "?x=1", "?", "#f", "#?x", "?redirect=https://evil.net", "#@evil.net", "\t", " ", "%20"}
	pre := []string{"", "", "", "", " ", "\t", "\n", "\x00", " "}
	out := []string{
		"https://app.example.com/cb/..\\..\\userfiles/x.html", "https://www.example.com/a/..\\b", "https://app.other.test/x/..\\..\\y",
		"https://cdn.corp-identity.test/cb", "https://cdn.corp-%C4%B0dentity.test/cb", "https://cdn.corp-İdentity.test/cb", "https://corp-İdentity.test/", "https://cdn.CORP-IDENTITY.test/cb",
		"https://app.example.com/cb", "https://example.com/", "https://evilexample.com/cb", "https://example.com.evil.net/cb",
		"https://app.example.com/cb?x=1", "http://app.example.com/cb", "https://app.example.com/a/../cb", "https://evil.net/cb",
		"https://app.example.com@evil.net/cb", "https://evil.net\\@app.example.com/cb", "https://evil.net#@app.example.com/cb",
		"https://app.example.com:8443/cb", "https://APP.EXAMPLE.COM/cb", "https://app.example.com./cb", "https:app.example.com/cb",
		"https://evil.net/app.example.com", "https://app.example.com.evil.net", "https://evil.net?app.example.com", "https://app.other.test/cb", "https://evilother.test/cb",
	}
	// legitimate hosts whose path carries percent-encoded delimiters: they are path characters and must stay so in
	// whatever is emitted
	for _, h := range []string{"app.example.com", "www.example.com", "app.other.test", "example.com"} {
		for _, path := range []string{"/cb%3Fx=1", "/cb%3Fnext=https://evil.net/%26x=", "/cb%3f", "/cb%26x=1", "/cb%23frag", "/cb%23%3Fx=1", "/a%2Fb%3Fc"} {
			out = append(out, "https://"+h+path)
		}
	}
	for _, sub := range []string{"", "app.", "a.b.", "www.", "x-y."} {
		for _, d := range []string{"example.com", "other.test", "partner.test", "zeta.test", "solo.test"} {
			for _, port := range []string{"", ":443", ":8443"} {
				for _, path := range []string{"/cb", "/", "", "/a/b.c"} {
					out = append(out, "https://"+sub+d+port+path)
				}
			}
		}
	}
	for len(out) < n {
		s := pre[rng.Intn(len(pre))] + schemes[rng.Intn(len(schemes))] + users[rng.Intn(len(users))] +
			hosts[rng.Intn(len(hosts))] + ports[rng.Intn(len(ports))] + paths[rng.Intn(len(paths))] + tails[rng.Intn(len(tails))]
		out = append(out, s)
	}
	return out
}

func TestVerifC13(t *testing.T) {
	rep := newVerifReport("C13", "adversarial redirect_uri grammar (scheme x user-info tricks x look-alike hosts x ports x paths with '..'/encodings x query/fragment x control characters) x client configurations (domains only, patterns only, both, domains with a pattern that does not compile, none, unknown client) through the real /idp/oauth2/authorize; whenever a code is redirected, a WHATWG-style reader of the emitted Location decides the contacted host: must be https, no query, no '..' segment, host == domain or *.domain (dot boundary), pattern match when configured; class = (client config, scheme/host/path classes, accepted)")
	defer rep.Finish()
	rng := verifRand("c13")
	clients := []c13Client{
		{"domains-only", []string{"example.com", "other.test"}, nil},
		{"patterns-only", nil, []string{`^https://app\.example\.com/cb$`, `^https://[a-z]+\.other\.test/`}},
		{"both", []string{"example.com"}, []string{`^https://[a-z.]*example\.com/cb`}},
		{"none", nil, nil},
		// a pattern that does not compile restricts like a pattern nothing matches: it must not fall back to domains only
		{"domains-and-broken-pattern", []string{"example.com"}, []string{`^https://app\.example\.com/(cb$`}},
		// clients whose domains no other client has, listed last and first-after-a-longer-list: what one client is
		// configured with must not show up in (or displace) what another client is allowed
		{"partner-domains", []string{"partner.test", "zeta.test"}, nil},
		{"single-domain", []string{"solo.test"}, nil},
		// a domain with letters that have non-ASCII case variants (U+0130 lower-cases to "i" in Go, not in a browser)
		{"identity-domain", []string{"corp-identity.test"}, nil},
	}
	mkEnv := func(cl []c13Client) (*verifEnv, error) {
		var y strings.Builder
		y.WriteString("openid_connect_idp:\n    clients:\n")
		for _, c := range cl {
			fmt.Fprintf(&y, "        - client_id: %q\n          client_secret: \"s-%s\"\n          allowed_redirect_domains: %s\n          allowed_redirect_url_re: %s\n",
				c.ID, c.ID, verifYAMLList(c.Domains), verifYAMLList(c.Patterns))
		}
		return verifNewEnv(verifStateOpts{Name: "c13", Users: map[string]string{"alice": "alice-pw-1"},
			AllowedWebUI: []string{"password"}, ExtraTop: y.String()})
	}
	env, err := mkEnv(clients)
	if err != nil {
		// a daemon that refuses to start with a pattern that does not compile is as strict as can be about that
		// client: leave it out and go on with the others
		var rest []c13Client
		for _, c := range clients {
			if c.ID != "domains-and-broken-pattern" {
				rest = append(rest, c)
			}
		}
		var err2 error
		if env, err2 = mkEnv(rest); err2 != nil {
			t.Fatal(err)
		}
		rep.Obs("the configuration with a redirect pattern that does not compile was refused at start-up (%v): that client is left out", err)
		clients = rest
	}
	ck, _ := verifLogin(env, "alice", "alice-pw-1")
	if ck == "" {
		t.Fatal("login failed")
	}
	n := 1500
	if verifThorough() {
		n = 60000
	}
	uris := c13Grammar(rng, n)
	all := append([]c13Client{}, clients...)
	all = append(all, c13Client{ID: "unknown-client"})
	// pass 0 asks every (uri, client) once; pass 1 asks again, clients in reverse order, every uri that some client was
	// granted in pass 0 (plus a sample of the rest): the answer for (client, uri) must not depend on what the server
	// answered before, for this or for any other client
	first := map[string]bool{}
	grantedTo := map[string]bool{}
	ask := func(pass, ui, ci int, raw string, cl c13Client) {
		qs := url.Values{"response_type": {"code"}, "client_id": {cl.ID}, "scope": {"openid"},
			"redirect_uri": {raw}, "state": {"st-1"}, "nonce": {"nonce-123456"}}
		method := "GET"
		q := verifReq{Method: method, Path: "/idp/oauth2/authorize?" + qs.Encode(), Cookies: map[string]string{"auth_cookie": ck}}
		if (ui+ci)%5 == 0 {
			q = verifReq{Method: "POST", Path: "/idp/oauth2/authorize", Form: qs, Cookies: map[string]string{"auth_cookie": ck}}
		}
		resp := env.Do(q.Build())
		cs := c13Case{Client: cl.ID, Redirect: raw, Status: resp.Code}
		loc := resp.Header.Get("Location")
		accepted := resp.Code >= 300 && resp.Code < 400 && strings.Contains(loc, "code=")
		dk := cl.ID + "\x00" + raw
		if pass == 0 {
			first[dk] = accepted
			if accepted {
				grantedTo[raw] = true
			}
		} else if was, seen := first[dk]; seen {
			rep.Count("asked_again", 1)
			if was != accepted {
				rep.Violate("C13/answer-depends-on-history/"+cl.ID, fmt.Sprintf("the same redirect_uri for the same client was answered accepted=%v first and accepted=%v after other requests", was, accepted), cs)
			}
		}
		bu, ok := verifBrowserParse(raw)
		hostClass := "unparsable"
		if ok {
			switch {
			case verifHostInDomains(bu.Host, []string{"example.com", "other.test"}):
				hostClass = "on-list"
			default:
				hostClass = "off-list"
			}
		}
		rep.Eval(fmt.Sprintf("%s|%s|q=%v|dd=%v|scheme=%s|acc=%v|pass=%d", cl.ID, hostClass, bu.HasQuery, verifPathHasDotDot(bu.Path), bu.Scheme, accepted, pass))
		if resp.Panic != "" {
			rep.Violate("C13/panic", "authorize handler panicked", map[string]interface{}{"case": cs, "panic": firstLines(resp.Panic, 10)})
			return
		}
		if !accepted {
			if len(verifSignedMaterial(resp)) > 0 && resp.Code != 200 {
				// a login page (401/200 html) carries no JWS; a refusal must not either
				rep.Violate("C13/code-in-refusal", "signed material in a refused authorization", cs)
			}
			rep.Count("refused", 1)
			if ok && hostClass == "on-list" && bu.Scheme == "https" && !bu.HasQuery && !verifPathHasDotDot(bu.Path) && cl.ID == "domains-only" && bu.Userinfo == "" {
				rep.Count("legitimate_looking_refused", 1)
				rep.Obs("legitimate-looking redirect refused (observation only): %q", raw)
			}
			return
		}
		rep.Count("accepted", 1)
		cs.Location = loc
		if cl.ID == "unknown-client" || cl.ID == "none" {
			rep.Violate("C13/code-to-unconfigured-client/"+cl.ID, "a client without configured hosts/patterns (or unknown) received a code", cs)
			return
		}
		// a host with U+0130 (raw or percent-encoded) is, for a browser, an internationalised name of its own
		// (IDNA maps it to "i" + combining dot, an xn-- label): never a host of an ASCII domain of the list
		if i := strings.Index(loc, "://"); i >= 0 {
			auth := loc[i+3:]
			if j := strings.IndexAny(auth, "/?#"); j >= 0 {
				auth = auth[:j]
			}
			if la := strings.ToLower(auth); strings.Contains(la, "%c4%b0") || strings.Contains(auth, "\u0130") {
				cs.Note = "host-off-list (non-ASCII letter folded to ASCII)"
				rep.Violate("C13/host-off-list/unicode-fold/"+cl.ID, "authorization code redirected to a host that is an internationalised look-alike of a listed domain", cs)
				return
			}
		}
		// the Location the browser follows is what was emitted, not what was sent
		lb, lok := verifBrowserParse(loc)
		if !lok {
			rep.Count("accepted_but_location_unparsable_by_reader", 1)
			rep.Sample("accepted-unparsable", 2, cs)
			return
		}
		cs.Browser = lb.Scheme + "://" + lb.Host
		// the emitted Location is raw + "?code=..": judge the redirect part with the reader of the raw string
		rb, rok := verifBrowserParse(raw)
		var why string
		switch {
		case lb.Scheme != "https":
			why = "not-https"
		case rok && rb.HasQuery && rb.Query != "":
			// (a bare trailing '?' is an empty query: no query string reaches the client; counted below, not judged)
			why = "has-query"
		case rok && verifPathHasDotDot(rb.Path):
			why = "dotdot-segment"
		case len(cl.Domains) > 0 && !verifHostInDomains(lb.Host, cl.Domains):
			why = "host-off-list"
			if strings.HasSuffix(lb.Host, ".") && verifHostInDomains(strings.TrimSuffix(lb.Host, "."), cl.Domains) {
				why = "" // trailing dot of a listed host: same DNS name; not judged
				rep.Count("trailing_dot_of_listed_host_accepted", 1)
			}
		}
		if why == "" && rok && rb.HasQuery {
			rep.Count("accepted_with_empty_query_mark", 1)
		}
		// the same rule read off what was emitted: the query string the client's host receives is the one the server
		// appends (code=...&state=...) and nothing the requester chose (a delimiter that was percent-encoded in the
		// redirect_uri must not come out as a literal one)
		if why == "" && !(rok && rb.HasQuery) {
			rep.Count("emitted_query_judged", 1)
			if lb.HasQuery && !strings.HasPrefix(lb.Query, "code=") {
				why = "has-query-as-emitted"
			} else if !lb.HasQuery && !strings.Contains(raw, "#") && strings.Contains(lb.Fragment, "code=") {
				why = "code-in-fragment-as-emitted"
			}
		}
		if why == "" && len(cl.Patterns) > 0 {
			m := false
			for _, p := range cl.Patterns {
				if ok, _ := regexp.MatchString(p, raw); ok {
					m = true
				}
			}
			if !m {
				why = "pattern-mismatch"
			}
		}
		if why == "" && len(cl.Domains) == 0 && len(cl.Patterns) > 0 {
			// patterns-only clients: the browser-contacted host must be the one the pattern names
			if !verifHostInDomains(lb.Host, []string{"app.example.com", "other.test"}) {
				why = "pattern-host-confusion"
			}
		}
		if why != "" {
			cs.Note = why
			family := "other"
			switch {
			case lb.Userinfo != "" || strings.Contains(raw, "@"):
				family = "userinfo"
			case strings.Contains(raw, "\\"):
				family = "backslash"
			case strings.ContainsAny(raw, "\t\n\r"):
				family = "control-char"
			case strings.Contains(raw, "%"):
				family = "encoded"
			case !strings.HasPrefix(lb.Host, ".") && hostSuffixNoDot(lb.Host, cl.Domains):
				family = "suffix-without-dot-boundary"
			}
			rep.Violate("C13/"+why+"/"+family+"/"+cl.ID, "authorization code redirected to "+cs.Browser+" ("+why+")", cs)
		} else {
			rep.Count("accepted_ok", 1)
			rep.Count("accepted_ok_"+cl.ID, 1)
			rep.Sample("accepted:"+cl.ID, 2, cs)
		}
	}
	for ui, raw := range uris {
		for ci, cl := range all {
			if !verifThorough() && ui >= 200 && (ui+ci)%3 != 0 {
				continue
			}
			ask(0, ui, ci, raw, cl)
		}
	}
	for ui, raw := range uris {
		if !grantedTo[raw] && ui%7 != 0 {
			continue
		}
		for ci := len(all) - 1; ci >= 0; ci-- {
			ask(1, ui, ci, raw, all[ci])
		}
	}
	rep.Floor("accepted_ok", 30)
	for _, c := range clients {
		if len(c.Domains)+len(c.Patterns) > 0 && c.ID != "domains-and-broken-pattern" {
			// every configured client is granted something of its own: the off-list verdicts above are not vacuous
			rep.Floor("accepted_ok_"+c.ID, 1)
		}
	}
	rep.Floor("refused", 500)
	rep.Floor("asked_again", 200)
	rep.Assume("browser behaviour is modelled by a small WHATWG-style reader; strings it cannot decide with certainty (IDNA hosts, forbidden host code points) are not judged")
}

func hostSuffixNoDot(host string, domains []string) bool {
	for _, d := range domains {
		if strings.HasSuffix(host, d) && host != d && !strings.HasSuffix(host, "."+d) {
			return true
		}
	}
	return false
}
