package main

// C01 - certificates are issued only after the operator-required authentication.
//
// Reference model (from the statement, not from the code):
//   sealed                         => refuse
//   credential invalid             => refuse
//   method != POST                 => no certificate
//   U2F bit in B                   => issue
//   some m in L, m recognised for certificates, bit(m) in B => issue
//   otherwise, password in L       => unspecified (statement silent)
//   otherwise                      => refuse
// refuse means: status != 200 and nothing signed in the response.

import (
	"fmt"
	"sort"
	"strings"
	"sync"
	"testing"
)

// methods whose bit the certificate setting is documented to honour
var c01Recognised = []string{"password", "U2F", "SymantecVIP", "IPCertificate", "TOTP", "Okta2FA", "WebauthForCLI"}

func c01Expect(L map[string]bool, c verifCred, method string, sealed bool) string {
	if sealed || !c.Valid || method != "POST" {
		return "refuse"
	}
	if c.Bits&verifBit["U2F"] != 0 {
		return "issue"
	}
	for _, m := range c01Recognised {
		if L[m] && c.Bits&verifBit[m] != 0 {
			return "issue"
		}
	}
	if L["password"] {
		return "unspec"
	}
	return "refuse"
}

type c01Probe struct {
	Config   []string `json:"config"`
	Cred     string   `json:"credential"`
	CertType string   `json:"cert_type"`
	Method   string   `json:"method"`
	Sealed   bool     `json:"sealed"`
	Expect   string   `json:"expect"`
	Status   int      `json:"status"`
	Signed   []string `json:"signed_material,omitempty"`
	Note     string   `json:"note,omitempty"`
}

func c01Subset(mask int) []string {
	var l []string
	for i, m := range verifMethodNames {
		if mask&(1<<i) != 0 {
			l = append(l, m)
		}
	}
	return l
}

func c01Run(t *testing.T, rep *verifReport, env *verifEnv, w *verifCredWorld, shapes []verifCred,
	masks []int, certTypes []string, methods []string, sealed bool) {
	for _, mask := range masks {
		cfg := c01Subset(mask)
		L := map[string]bool{}
		for _, m := range cfg {
			L[m] = true
		}
		env.SetAllowedCerts(cfg)
		for _, cred := range shapes {
			for _, ct := range certTypes {
				for _, method := range methods {
					user := w.User
					if cred.IPCert || (cred.Kind == "cert" && cred.User != "") {
						user = cred.User
					}
					q := verifReq{Method: method, Path: "/certgen/" + user,
						Multipart: map[string]string{"type": ct, "duration": "1h"},
						FileField: "pubkeyfile"}
					if ct == "ssh" {
						q.FileData = verifSSHAuthorizedKey(verifUserECKey().Public())
					} else {
						q.FileData = verifPKIXPEM(verifUserECKey().Public())
					}
					cred.Apply(&q)
					resp := env.Do(q.Build())
					exp := c01Expect(L, cred, method, sealed)
					signed := verifSignedMaterial(resp)
					p := c01Probe{Config: cfg, Cred: cred.Name, CertType: ct, Method: method,
						Sealed: sealed, Expect: exp, Status: resp.Code, Signed: signed}
					outcome := "refused"
					if resp.Code == 200 {
						outcome = "issued"
					}
					class := fmt.Sprintf("%s|bits=%#x|%s|%s|%s", cred.Name, cred.Bits&c01Mask(L), exp, outcome, ct)
					if method != "POST" {
						class += "|" + method
					}
					if sealed {
						class += "|sealed"
					}
					rep.Eval(class)
					rep.Count("expect_"+exp, 1)
					rep.Count("outcome_"+outcome, 1)
					if resp.Panic != "" {
						rep.Violate("C01/panic/"+cred.Name, "handler panicked", map[string]interface{}{"probe": p, "panic": firstLines(resp.Panic, 12)})
						continue
					}
					switch exp {
					case "refuse":
						why := cred.Why
						if cred.Valid {
							why = "insufficient factor"
							if method != "POST" {
								why = "method " + method
							}
						}
						if sealed {
							why = "sealed"
						}
						rep.Count("refuse_cause_"+why, 1)
						if resp.Code == 200 || len(signed) > 0 {
							p.Note = "must refuse (" + why + ") but got status 200 or signed material"
							rep.Violate(c01Key(cred, why, L, sealed, method), p.Note, p)
						} else {
							rep.Sample("refused:"+why, 1, p)
						}
					case "issue":
						ok := resp.Code == 200
						if ok {
							if ct == "ssh" {
								c, err := verifParseSSHCert(resp.Body)
								ok = err == nil && len(c.ValidPrincipals) == 1 && c.ValidPrincipals[0] == user
							} else {
								c, err := verifParseX509PEM(resp.Body)
								ok = err == nil && c.Subject.CommonName == user
							}
						}
						if !ok {
							p.Note = "a user who completed an acceptable factor must be served"
							rep.Violate("C01/not-served/"+cred.Name+"/"+ct, p.Note, p)
						} else {
							rep.Count("issued_"+ct, 1)
							rep.Sample("issued:"+ct, 2, p)
						}
					case "unspec":
						rep.Count("unspecified_cells", 1)
						rep.Sample("unspecified:"+outcome, 1, p)
					}
				}
			}
		}
	}
}

func c01Mask(L map[string]bool) int {
	m := verifBit["U2F"]
	for k := range L {
		m |= verifBit[k]
	}
	return m
}

func c01Key(c verifCred, why string, L map[string]bool, sealed bool, method string) string {
	if sealed {
		return "C01/issued-while-sealed/" + c.Name
	}
	if !c.Valid {
		return "C01/invalid-credential-honoured/" + c.Name
	}
	if method != "POST" {
		return "C01/issued-on-" + method + "/" + c.Name
	}
	var l []string
	for k := range L {
		l = append(l, k)
	}
	sort.Strings(l)
	return "C01/insufficient-factor-served/" + c.Name + "/L=" + strings.Join(l, ",")
}

func firstLines(s string, n int) string {
	l := strings.Split(s, "\n")
	if len(l) > n {
		l = l[:n]
	}
	return strings.Join(l, "\n")
}

func c01World(t *testing.T, name string, sealed bool) (*verifEnv, *verifCredWorld) {
	env, err := verifNewEnv(verifStateOpts{Name: name, Users: map[string]string{"alice": "alice-pw-1"},
		ClientCA: true, AutomationUsers: []string{"autobot"}, AdminUsers: []string{"root1"},
		AllowedWebUI: []string{"password"}, Sealed: sealed, Passphrase: "correct horse",
		PublicKeysFile: sealed, Ed25519: true})
	if err != nil {
		t.Fatal(err)
	}
	w := &verifCredWorld{Env: env, CA: verifSigner("ca_rsa2048"), User: "alice", Password: "alice-pw-1", AutoUser: "autobot"}
	return env, w
}

func TestVerifC01(t *testing.T) {
	rep := newVerifReport("C01", "every subset of the 9 acceptable-method names x every credential shape x certificate type x HTTP method x sealed/unsealed; oracle = reference model from the statement (issue / refuse / unspecified); refuse = status!=200 and no signed material; class = (credential shape, proven bits restricted to the configured set, expected, observed, cert type)")
	defer rep.Finish()
	rng := verifRand("c01")
	allTypes := []string{"ssh", "x509", "x509-kubernetes"}
	var allMasks []int
	for m := 0; m < 512; m++ {
		allMasks = append(allMasks, m)
	}
	workers := 8
	var wg sync.WaitGroup
	var mu sync.Mutex
	nshapes := 0
	for wk := 0; wk < workers; wk++ {
		wg.Add(1)
		go func(wk int) {
			defer wg.Done()
			env, w := c01World(t, fmt.Sprintf("c01-%d", wk), false)
			shapes := w.Shapes()
			mu.Lock()
			nshapes = len(shapes)
			mu.Unlock()
			var masks []int
			for i, m := range allMasks {
				if i%workers == wk {
					masks = append(masks, m)
				}
			}
			if verifThorough() {
				c01Run(t, rep, env, w, shapes, masks, allTypes, []string{"POST"}, false)
				c01Run(t, rep, env, w, shapes, masks, []string{"ssh"}, []string{"GET", "PUT", "HEAD", "DELETE"}, false)
			} else {
				ct := allTypes[int(verifSeed()+int64(wk))%3]
				c01Run(t, rep, env, w, shapes, masks, []string{ct}, []string{"POST"}, false)
			}
			if len(env.Panics) > 0 {
				rep.Count("panics", len(env.Panics))
			}
		}(wk)
	}
	wg.Wait()
	// other HTTP methods and the remaining cert types on seeded configurations
	env, w := c01World(t, "c01-methods", false)
	shapes := w.Shapes()
	var seeded []int
	for i := 0; i < 24; i++ {
		seeded = append(seeded, rng.Intn(512))
	}
	seeded = append(seeded, 0, 511, 1, 1<<2, 1<<5)
	if !verifThorough() {
		c01Run(t, rep, env, w, shapes, seeded, allTypes, []string{"POST"}, false)
		c01Run(t, rep, env, w, shapes, seeded[:8], []string{"ssh", "x509"}, []string{"GET", "PUT", "HEAD"}, false)
	}
	// sealed server: same shapes, nothing may be signed
	senv, sw := c01World(t, "c01-sealed", true)
	if !senv.IsSealed() {
		rep.Inconc("sealed environment came up unsealed")
	}
	c01Run(t, rep, senv, sw, sw.Shapes(), append([]int{0, 511, 1}, seeded[:6]...), allTypes, []string{"POST", "GET"}, true)
	rep.Extra["credential_shapes"] = nshapes
	rep.Extra["configurations"] = 512
	// vacuity floors: the workload must have reached grants of each type and
	// refusals of each cause
	for _, ct := range allTypes {
		rep.Floor("issued_"+ct, 10)
	}
	for _, cause := range []string{"no credential", "expired", "foreign key", "wrong token kind", "insufficient factor",
		"sealed", "alg none", "HMAC with public key", "IP certificate presented from outside its netblocks", "wrong password"} {
		rep.Floor("refuse_cause_"+cause, 1)
	}
	if nshapes < 40 {
		rep.Inconc("only %d credential shapes built", nshapes)
	}
}
