package main

// C09 - a sealed server signs nothing; only the right passphrase, delivered
// over TLS with a verified client certificate, unseals it, exactly once; after
// unsealing the published keys include the keys that sign.

import (
	"bytes"
	"crypto"
	"encoding/json"
	"fmt"
	"net/url"
	"strings"
	"sync"
	"testing"
	"time"

	"github.com/go-jose/go-jose/v4"
	"golang.org/x/crypto/ssh"
)

type c09Case struct {
	Where  string   `json:"where"`
	Route  string   `json:"route"`
	Method string   `json:"method"`
	Cred   string   `json:"credential"`
	Status int      `json:"status"`
	Signed []string `json:"signed_material,omitempty"`
	Note   string   `json:"note,omitempty"`
}

const c09Passphrase = "correct horse battery staple"

func c09Sealed(t *testing.T, name string, ed bool, pubKeys ...string) *verifEnv {
	env, err := verifNewEnv(verifStateOpts{Name: name, Sealed: true, Passphrase: c09Passphrase, ClientCA: true, PublicKeysFile: true, Ed25519: ed, PublicKeysList: pubKeys,
		Users: map[string]string{"alice": "alice-pw"}, AllowedCerts: []string{"password"}, AllowedWebUI: []string{"password"}, AdminUsers: []string{"alice"},
		EnableTOTP: true, EnableBootstrap: true, CLILifetime: "1h",
		ExtraTop: "openid_connect_idp:\n    clients:\n        - client_id: \"client-a\"\n          client_secret: \"secret-a\"\n          allowed_redirect_domains: [\"example.com\"]\n"})
	if err != nil {
		t.Fatal(err)
	}
	return env
}

func TestVerifC09(t *testing.T) {
	rep := newVerifReport("C09", "(sealed) every extracted service and admin route x GET/POST x {no credential, session cookie that was valid before the restart (public keys file configured), basic-auth, client certificate}: no signed material, readiness 503; (injection) wrong passphrases (empty, one bit off, prefix, suffix, 64 KiB, random) with a verified client certificate, and the right passphrase without TLS / without a verified chain: still sealed; (transition) K in {2,8,32} concurrent right/wrong injections racing readers of readiness, public keys and JWKS: exactly one success, exactly one ready signal, later ones refused, every 200 on a signer-gated route shows the complete key set; (after) published SSH/X.509/JWKS keys verify a certificate and a cookie issued right after; class = (phase, route/variant, outcome)")
	defer rep.Finish()
	rng := verifRand("c09")
	ca := verifSigner("ca_rsa2048")
	env := c09Sealed(t, "c09", true)
	if !env.IsSealed() {
		rep.Inconc("environment came up unsealed")
		return
	}
	leaf := verifMakeLeaf("unlocker", verifUserECKey().Public(), verifClientCACert(), verifSigner("clientca_rsa2048"), time.Now().Add(-time.Hour), time.Now().Add(time.Hour), nil)
	certTLS := env.TLSFor(leaf)
	if certTLS == nil {
		t.Fatal("client certificate does not verify")
	}
	oldCookie := verifMint(verifSessionClaims("alice", verifBit["password"]|verifBit["U2F"], time.Now().Add(-time.Hour), 16*time.Hour), ca)
	type cred struct {
		name  string
		apply func(q *verifReq)
	}
	creds := []cred{{"none", func(q *verifReq) {}},
		{"cookie-valid-before-restart", func(q *verifReq) { q.Cookies = verifCk(oldCookie) }},
		{"basic-auth", func(q *verifReq) { q.UseBasic, q.BasicUser, q.BasicPass = true, "alice", "alice-pw" }},
		{"client-certificate", func(q *verifReq) { q.TLS = certTLS }}}
	form := url.Values{"username": {"alice"}, "password": {"alice-pw"}, "OTP": {"123456"}, "index": {"1"}, "action": {"Update"}, "name": {"n"},
		"response_type": {"code"}, "client_id": {"client-a"}, "scope": {"openid"}, "redirect_uri": {"https://a.example.com/cb"}, "token": {oldCookie},
		"port": {"1234"}, "grant_type": {"authorization_code"}, "code": {oldCookie}, "client_secret": {"secret-a"}, "identity": {"alice"}}
	sealedSweep := func(label string) {
		for _, adm := range []bool{false, true} {
			routes := env.Routes
			if adm {
				routes = env.AdminRoutes
			}
			for _, rt := range routes {
				if strings.HasPrefix(rt.Pattern, "/static") || rt.Pattern == "/admin/inject" {
					continue
				}
				paths := []string{rt.Pattern}
				if rt.Pattern == "/certgen/" {
					paths = append(paths, "/certgen/alice")
				}
				if rt.Pattern == "/public/" {
					paths = append(paths, "/public/x509ca", "/public/sshca", "/public/loginForm")
				}
				for _, p := range paths {
					for _, cr := range creds {
						for _, m := range []string{"GET", "POST"} {
							q := verifReq{Method: m, Path: p}
							if m == "GET" {
								q.Path += "?" + form.Encode()
							} else if p == "/certgen/alice" {
								q.Multipart, q.FileField, q.FileData = map[string]string{"type": "ssh"}, "pubkeyfile", verifSSHAuthorizedKey(verifUserECKey().Public())
							} else {
								q.Form = form
							}
							cr.apply(&q)
							var resp *verifResp
							if adm {
								resp = env.DoAdmin(q.Build())
							} else {
								resp = env.Do(q.Build())
							}
							signed := verifSignedMaterial(resp)
							where := "service"
							if adm {
								where = "admin"
							}
							cs := c09Case{Where: where, Route: p, Method: m, Cred: cr.name, Status: resp.Code, Signed: signed}
							rep.Eval(fmt.Sprintf("%s|%s|%s|%s|%s|%d", label, where, p, m, cr.name, resp.Code/100))
							rep.Count("sealed_probes", 1)
							if resp.Panic != "" {
								rep.Obs("handler panic while sealed on %s %s (nothing signed): %s", m, p, firstLines(resp.Panic, 1))
							}
							if len(signed) > 0 {
								cs.Note = "signed material left a sealed server"
								rep.Violate("C09/signed-while-sealed/"+p+"/"+signed[0], cs.Note, cs)
							} else {
								rep.Sample(label+":"+where+":"+cr.name, 1, cs)
							}
							if p == "/readyz" && resp.Code != 503 {
								rep.Violate("C09/ready-while-sealed", fmt.Sprintf("readiness answered %d while sealed", resp.Code), cs)
							}
						}
					}
				}
			}
		}
	}
	sealedSweep("sealed")
	// ---- injection attempts that must leave the server sealed
	inject := func(e *verifEnv, pass string, mode string) *verifResp {
		q := verifReq{Method: "POST", Path: "/admin/inject", Form: url.Values{"ssh_ca_password": {pass}}}
		switch mode {
		case "verified-cert":
			q.TLS = certTLS
		case "no-tls":
			q.NoTLS = true
		case "tls-without-cert":
		}
		// an injection answers (the passphrase prompt fails fast); one that is still inside the unseal code after a
		// minute, holding the state lock, has hung the daemon: every later request would block behind it
		ch := make(chan *verifResp, 1)
		go func() { ch <- e.DoAdmin(q.Build()) }()
		select {
		case r := <-ch:
			return r
		case <-time.After(60 * time.Second):
			buf := make([]byte, 1<<20)
			dump := string(buf[:runtimeStack(buf)])
			if strings.Contains(dump, "unsealCA") || strings.Contains(dump, "pgpDecryptFileData") {
				rep.Violate("C09/injection-never-answers", "an injection was still inside the unseal code after 60 s (the state lock is held: readiness, the sealed checks and further injections block behind it)",
					map[string]interface{}{"passphrase_length": len(pass), "mode": mode})
			} else {
				rep.Inconc("an injection did not answer within 60 s and is not inside the unseal code")
			}
			return nil
		}
	}
	right := c09Passphrase
	oneBit := []byte(right)
	oneBit[3] ^= 1
	big := strings.Repeat("A", 64*1024)
	wrong := map[string]string{"empty": "", "one-bit-off": string(oneBit), "prefix": right[:len(right)-1], "suffix": right + " ", "upper": strings.ToUpper(right),
		"64KiB": big, "right-then-nul": right + "\x00", "nul": "\x00"}
	for i := 0; i < 12; i++ {
		b := make([]byte, 1+rng.Intn(40))
		rng.Read(b)
		wrong[fmt.Sprintf("random-%d", i)] = string(b)
	}
	for name, pw := range wrong {
		r := inject(env, pw, "verified-cert")
		if r == nil {
			t.SkipNow() // recorded above; nothing after this can be served
		}
		rep.Eval("inject|wrong:" + strings.Split(name, "-")[0] + fmt.Sprintf("|%d", r.Code/100))
		rep.Count("wrong_passphrases", 1)
		if !env.IsSealed() || r.Code == 200 {
			rep.Violate("C09/unsealed-by-wrong-passphrase/"+name, "a wrong passphrase unsealed the server", map[string]interface{}{"variant": name, "status": r.Code})
			return
		}
	}
	for _, mode := range []string{"no-tls", "tls-without-cert"} {
		r := inject(env, right, mode)
		if r == nil {
			t.SkipNow()
		}
		rep.Eval("inject|right|" + mode + fmt.Sprintf("|%d", r.Code/100))
		if !env.IsSealed() || r.Code == 200 {
			rep.Violate("C09/unsealed-without-verified-certificate/"+mode, "the right passphrase without a verified client certificate unsealed the server", map[string]interface{}{"mode": mode, "status": r.Code})
			return
		}
		rep.Count("right_passphrase_without_cert_refused", 1)
	}
	// GET with the passphrase in the query is still an injection (ParseForm); method is not part of the statement
	sealedSweep("sealed-after-failed-injections")
	// ---- the transition, K concurrent injections racing readers
	transition := func(e *verifEnv, K int, label string) {
		ready := e.WatchSignerReady()
		var wg sync.WaitGroup
		var mu sync.Mutex
		success, already, other := 0, 0, 0
		stop := make(chan struct{})
		var readerViol []string
		wantSSHKeys := 2 // RSA + Ed25519 CA
		for rdr := 0; rdr < 4; rdr++ {
			wg.Add(1)
			go func() {
				defer wg.Done()
				for {
					select {
					case <-stop:
						return
					default:
					}
					r := e.Do(verifReq{Path: "/public/sshca"}.Build())
					if r.Code == 200 {
						n := len(bytes.Split(bytes.TrimSpace(r.Body), []byte("\n")))
						if n < wantSSHKeys {
							mu.Lock()
							readerViol = append(readerViol, fmt.Sprintf("/public/sshca answered 200 with %d of %d keys", n, wantSSHKeys))
							mu.Unlock()
						}
					}
					r = e.Do(verifReq{Path: "/idp/oauth2/jwks"}.Build())
					if r.Code == 200 {
						var ks jose.JSONWebKeySet
						if json.Unmarshal(r.Body, &ks) != nil || len(ks.Keys) < wantSSHKeys {
							mu.Lock()
							readerViol = append(readerViol, fmt.Sprintf("JWKS answered 200 with %d keys", len(ks.Keys)))
							mu.Unlock()
						}
					}
					rz := e.DoAdmin(verifReq{Path: "/readyz"}.Build())
					if rz.Code == 200 {
						// ready implies the published X.509 CA set is complete
						r = e.Do(verifReq{Path: "/public/x509ca"}.Build())
						if r.Code != 200 || bytes.Count(r.Body, []byte("BEGIN CERTIFICATE")) < 2 {
							mu.Lock()
							readerViol = append(readerViol, fmt.Sprintf("/readyz said ready but /public/x509ca = %d with %d certificates", r.Code, bytes.Count(r.Body, []byte("BEGIN CERTIFICATE"))))
							mu.Unlock()
						}
					}
				}
			}()
		}
		var iw sync.WaitGroup
		start := make(chan struct{})
		for k := 0; k < K; k++ {
			iw.Add(1)
			go func(k int) {
				defer iw.Done()
				pw := right
				if k%3 == 2 {
					pw = "wrong-" + fmt.Sprint(k)
				}
				<-start
				r := inject(e, pw, "verified-cert")
				if r == nil {
					r = &verifResp{Code: 0}
				}
				mu.Lock()
				switch {
				case r.Code == 200:
					success++
				case strings.Contains(string(r.Body), "already unlocked"):
					already++
				default:
					other++
				}
				mu.Unlock()
			}(k)
		}
		close(start)
		iw.Wait()
		// one more right injection afterwards: must be refused as already unlocked
		r := inject(e, right, "verified-cert")
		if r == nil {
			r = &verifResp{Code: 0}
		}
		time.Sleep(20 * time.Millisecond)
		close(stop)
		wg.Wait()
		got, left := ready()
		c := map[string]interface{}{"K": K, "success": success, "already_unlocked": already, "other_refusals": other, "ready_signals_received": got,
			"ready_signals_left_in_channel": left, "late_injection_status": r.Code}
		rep.Eval(fmt.Sprintf("transition|K=%d|success=%d|ready=%d", K, success, got+left))
		rep.Count("transitions", 1)
		switch {
		case success != 1:
			rep.Violate(fmt.Sprintf("C09/transition/success-count=%d", success), "concurrent injections did not produce exactly one successful unseal", c)
		case got+left != 1:
			rep.Violate(fmt.Sprintf("C09/transition/ready-signals=%d", got+left), "the ready signal was not delivered exactly once", c)
		case r.Code == 200 || !strings.Contains(string(r.Body), "already unlocked"):
			rep.Violate("C09/transition/late-injection-accepted", "an injection after the unseal was not refused as already unlocked", c)
		case e.IsSealed():
			rep.Violate("C09/transition/still-sealed", "the right passphrase did not unseal the server", c)
		default:
			rep.Sample("transition:"+label, 1, c)
		}
		for _, v := range readerViol {
			rep.Violate("C09/transition/half-initialised-keys", v, c)
			break
		}
	}
	transition(env, 8, "K=8")
	nExtra := []int{2, 32}
	if verifThorough() {
		for i := 0; i < 90; i++ {
			nExtra = append(nExtra, []int{2, 3, 8, 32, 64}[i%5])
		}
	}
	for i, K := range nExtra {
		e2 := c09Sealed(t, fmt.Sprintf("c09-t%d", i), true)
		transition(e2, K, fmt.Sprintf("K=%d", K))
	}
	// ---- after the unseal: published keys include the keys that sign, whatever the
	// (older) public-keys file listed before the restart
	c09After(rep, env, "keys-file=both")
	variants := map[string][]string{
		"keys-file=ed25519-only":  {"ca_ed25519"},
		"keys-file=rsa-only":      {"ca_rsa2048"},
		"keys-file=unrelated-old": {"foreign_rsa2048", "foreign_ed25519"},
		"keys-file=old+ed25519":   {"foreign_rsa2048", "ca_ed25519"},
	}
	vi := 0
	for label, list := range variants {
		vi++
		e2 := c09Sealed(t, fmt.Sprintf("c09-v%d", vi), true, list...)
		r := e2.DoAdmin(verifReq{Method: "POST", Path: "/admin/inject", Form: url.Values{"ssh_ca_password": {c09Passphrase}}, TLS: e2.TLSFor(leaf)}.Build())
		if r.Code != 200 || e2.IsSealed() {
			rep.Violate("C09/after/unseal-failed/"+label, fmt.Sprintf("the right passphrase did not unseal a deployment with %s (status %d)", label, r.Code), nil)
			continue
		}
		c09After(rep, e2, label)
	}
	rep.Floor("sealed_probes", 500)
	rep.Floor("wrong_passphrases", 15)
	rep.Floor("right_passphrase_without_cert_refused", 2)
	rep.Floor("transitions", 3)
	rep.Floor("after_checks_ok", 5)
}

func c09After(rep *verifReport, env *verifEnv, label string) {
	trust, err := verifPublishedTrust(env)
	if err != nil {
		rep.Violate("C09/after/"+label+"/no-published-keys", err.Error(), nil)
		return
	}
	var jwks jose.JSONWebKeySet
	rj := env.Do(verifReq{Path: "/idp/oauth2/jwks"}.Build())
	json.Unmarshal(rj.Body, &jwks)
	var jwksKeys []crypto.PublicKey
	for _, k := range jwks.Keys {
		jwksKeys = append(jwksKeys, k.Key)
	}
	ck, lr := verifLogin(env, "alice", "alice-pw")
	rep.Eval(fmt.Sprintf(label+"|after|login|%d", lr.Code))
	if ck == "" {
		rep.Violate("C09/after/"+label+"/login-fails", "login does not work after the unseal", map[string]int{"status": lr.Code})
	} else if _, ok := verifVerifyJWS(ck, jwksKeys); !ok {
		rep.Violate("C09/after/"+label+"/cookie-not-under-jwks", "a session cookie issued after the unseal does not verify under the served JWKS", nil)
	} else {
		rep.Count("after_checks_ok", 1)
	}
	for _, k := range verifAllUserKeys() {
		if k.Name != "ecP-256" && k.Name != "ed25519" && k.Name != "rsa2048" {
			continue
		}
		q := verifCertReq("alice", "ssh", k.SSH, "1h", nil)
		q.Cookies = verifCk(ck)
		r := env.Do(q.Build())
		rep.Eval(fmt.Sprintf(label+"|after|ssh-cert|%s|%d", k.Name, r.Code))
		if r.Code != 200 {
			rep.Violate("C09/after/"+label+"/issuance-fails/"+k.Name, "certificate issuance does not work after the unseal", map[string]int{"status": r.Code})
			continue
		}
		c, err := verifParseSSHCert(r.Body)
		sub, _, _, _, _ := ssh.ParseAuthorizedKey([]byte(k.SSH))
		if err != nil {
			rep.Violate("C09/after/"+label+"/unparsable", err.Error(), nil)
			continue
		}
		if bad := verifCheckSSHCert(c, "alice", sub, trust, nil, time.Now()); len(bad) > 0 {
			rep.Violate("C09/after/"+label+"/cert-not-under-published-keys/"+k.Name, strings.Join(bad, "; "), nil)
		} else {
			rep.Count("after_checks_ok", 1)
		}
		q = verifCertReq("alice", "x509", k.PKIX, "1h", nil)
		q.Cookies = verifCk(ck)
		r = env.Do(q.Build())
		if xc, err := verifParseX509PEM(r.Body); r.Code == 200 && err == nil {
			if bad := verifCheckX509UserCert(xc, "alice", k.Pub, trust); len(bad) > 0 {
				rep.Violate("C09/after/"+label+"/x509-not-under-published-ca/"+k.Name, strings.Join(bad, "; "), nil)
			} else {
				rep.Count("after_checks_ok", 1)
			}
		}
	}
	rz := env.DoAdmin(verifReq{Path: "/readyz"}.Build())
	if rz.Code != 200 {
		rep.Violate("C09/after/"+label+"/not-ready", fmt.Sprintf("readiness answers %d after the unseal", rz.Code), nil)
	}
}
