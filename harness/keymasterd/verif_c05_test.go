package main

// C05 - a session gains a factor only when its own user proves that factor.
//
// Online trace checker.  Ground truth is what the harness itself created: which
// TOTP codes are currently valid for whom and which were already accepted, who
// a push transaction was started for and on whose device it was approved, which
// hardware-token challenge was issued to whom and whether it was consumed, who
// a CLI token / bootstrap OTP belongs to.  For every auth cookie the server
// emits: subject == subject of the presented cookie (or the user whose password
// was given) and bits are a subset of old bits + {factors legitimately proven in
// this very step}.  Safety only; as a vacuity guard every enabled factor must
// have been legitimately gained at least once.

import (
	"encoding/base64"
	"encoding/json"
	"fmt"
	"math/rand"
	"net/url"
	"strings"
	"sync"
	"testing"
	"time"
)

type c05User struct {
	Name      string
	Password  string
	Secret    string // TOTP
	Token     *verifU2FToken
	VIPOTP    int
	Bootstrap string
}

type c05Session struct {
	Auth string // auth_cookie
	VIP  string // vip_push_cookie
}

type c05World struct {
	env   *verifEnv
	rep   *verifReport
	vip   *verifFakeVIP
	trust *verifTrust
	mu    sync.Mutex
	// ground truth
	acceptedTOTP map[string]map[string]bool // user -> codes already honoured
	pushFor      map[string]string          // vip cookie -> user the push was started for
	challenge    map[string]*c05Challenge   // user -> last challenge issued to that user
	cliOwner     map[string]string          // cli token -> user
	bootstrapOf  map[string]string          // otp value -> user (current, unused)
	lastAssert   map[string]map[string]string
	lastAssertCh map[string]string // the challenge value each stored assertion was made over
	trace        []string
	primaryLabel string
}

type c05Challenge struct {
	Value    string
	AppID    string
	Kind     string // u2f | webauthn
	IssuedAt time.Time
	Used     bool
}

func (w *c05World) info(tok string) (string, int, bool) {
	return verifCookieInfo(tok, w.trust.Keys)
}

func (w *c05World) log(format string, a ...interface{}) {
	w.mu.Lock()
	w.trace = append(w.trace, fmt.Sprintf(format, a...))
	if len(w.trace) > 40 {
		w.trace = w.trace[len(w.trace)-40:]
	}
	w.mu.Unlock()
}

// check compares an emitted cookie with the presented one.  proven = factor
// bits the harness legitimately proved for the presented cookie's subject in
// this step; loginUser != "" for a password login.
func (w *c05World) check(step, presented, emitted string, proven int, loginUser string) {
	if emitted == "" {
		return
	}
	nsub, nbits, ok := w.info(emitted)
	if !ok {
		w.rep.Violate("C05/emitted-cookie-does-not-verify/"+step, "the server set an auth cookie that does not verify under its published keys", map[string]interface{}{"step": step})
		return
	}
	osub, obits := loginUser, 0
	if loginUser == "" {
		var ok2 bool
		osub, obits, ok2 = w.info(presented)
		if !ok2 {
			w.rep.Violate("C05/cookie-from-nothing/"+step, "an auth cookie was emitted for a request without a valid session", map[string]interface{}{"step": step, "new_subject": nsub, "new_bits": nbits})
			return
		}
	} else {
		proven |= verifBit["password"]
	}
	w.rep.Count("cookies_checked", 1)
	gained := nbits &^ obits
	w.mu.Lock()
	tr := append([]string{}, w.trace...)
	w.mu.Unlock()
	c := map[string]interface{}{"step": step, "presented_subject": osub, "presented_bits": fmt.Sprintf("%#x", obits),
		"emitted_subject": nsub, "emitted_bits": fmt.Sprintf("%#x", nbits), "legitimately_proven_bits": fmt.Sprintf("%#x", proven), "recent_trace": tr}
	if nsub != osub {
		w.rep.Violate("C05/subject-changed/"+step, fmt.Sprintf("cookie of %q turned into a cookie of %q", osub, nsub), c)
		return
	}
	if extra := gained &^ proven; extra != 0 {
		w.rep.Violate(fmt.Sprintf("C05/unearned-factor/%s/bits=%#x", step, extra), fmt.Sprintf("session of %q gained factor bits %#x that were not proven for it in this step", osub, extra), c)
		return
	}
	delete(c, "recent_trace")
	w.rep.Sample("cookie:"+step, 1, c)
	for name, b := range verifBit {
		if gained&b != 0 && proven&b != 0 {
			w.rep.Count("legit_gain_"+name, 1)
		}
	}
}

// checkMulti: several auth cookies were attached to one request.  The emitted
// cookie must continue one of them (same subject) and may only gain factors
// legitimately proven for THAT subject in this step (provenFor[subject]).
func (w *c05World) checkMulti(step string, presented []string, emitted string, provenFor map[string]int) {
	if emitted == "" {
		return
	}
	nsub, nbits, ok := w.info(emitted)
	if !ok {
		return
	}
	w.rep.Count("cookies_checked", 1)
	c := map[string]interface{}{"step": step, "emitted_subject": nsub, "emitted_bits": fmt.Sprintf("%#x", nbits)}
	var subs []string
	matched := false
	for _, p := range presented {
		osub, obits, ok := w.info(p)
		if !ok {
			continue
		}
		subs = append(subs, osub)
		if osub != nsub {
			continue
		}
		matched = true
		if extra := (nbits &^ obits) &^ provenFor[osub]; extra != 0 {
			c["presented_subjects"] = subs
			w.rep.Violate(fmt.Sprintf("C05/unearned-factor/%s/bits=%#x", step, extra),
				fmt.Sprintf("with several cookies attached, the session of %q gained factor bits %#x that were proven for another user", nsub, extra), c)
			return
		}
	}
	if !matched {
		c["presented_subjects"] = subs
		w.rep.Violate("C05/subject-changed/"+step, "the emitted cookie continues none of the presented sessions", c)
	}
}

func (w *c05World) do(q verifReq) *verifResp { return w.env.Do(q.Build()) }

func (w *c05World) cookies(s *c05Session, vipFrom *c05Session) map[string]string {
	m := map[string]string{}
	if s != nil && s.Auth != "" {
		m["auth_cookie"] = s.Auth
	}
	if vipFrom != nil && vipFrom.VIP != "" {
		m["vip_push_cookie"] = vipFrom.VIP
	}
	return m
}

func (w *c05World) adopt(s *c05Session, r *verifResp) string {
	em := ""
	if c := r.Cookie("auth_cookie"); c != nil {
		em = c.Value
		if c.Value != "" {
			s.Auth = c.Value
		}
	}
	if c := r.Cookie("vip_push_cookie"); c != nil && c.Value != "" {
		s.VIP = c.Value
	}
	return em
}

// ---- actions ---------------------------------------------------------------

func (w *c05World) login(s *c05Session, u *c05User, rightPassword bool) {
	pw := u.Password
	if !rightPassword {
		pw += "x"
	}
	r := w.do(verifReq{Method: "POST", Path: "/api/v0/login", Form: url.Values{"username": {u.Name}, "password": {pw}}})
	w.log("login(%s,right=%v)=%d", u.Name, rightPassword, r.Code)
	w.rep.Eval(fmt.Sprintf("login|right=%v|%d", rightPassword, r.Code))
	em := ""
	if c := r.Cookie("auth_cookie"); c != nil {
		em = c.Value
	}
	if !rightPassword {
		if em != "" {
			w.rep.Violate("C05/cookie-for-wrong-password", "login with a wrong password set an auth cookie", map[string]interface{}{"user": u.Name})
		}
		return
	}
	w.check("login", "", em, 0, u.Name)
	w.adopt(s, r)
}

func (w *c05World) validTOTP(u *c05User, code string) bool {
	now := time.Now()
	for _, d := range []time.Duration{-30 * time.Second, 0, 30 * time.Second} {
		if verifTOTPCode(u.Secret, now.Add(d)) == code {
			return true
		}
	}
	return false
}

// totp presents code in session s (whose subject is looked up from the cookie)
func (w *c05World) totp(s *c05Session, users map[string]*c05User, code, label string) bool {
	presented := s.Auth
	sub, _, ok := w.info(s.Auth)
	r := w.do(verifReq{Method: "POST", Path: "/api/v0/TOTPAuth", Form: url.Values{"OTP": {code}}, Cookies: w.cookies(s, nil)})
	w.log("totp(%s,%s)=%d", sub, label, r.Code)
	proven := 0
	if ok {
		if u := users[sub]; u != nil && u.Secret != "" {
			w.mu.Lock()
			used := w.acceptedTOTP[sub][code]
			w.mu.Unlock()
			if w.validTOTP(u, code) && !used {
				proven = verifBit["TOTP"]
			}
		}
	}
	em := w.adopt(s, r)
	honoured := false
	if em != "" {
		if _, nb, ok := w.info(em); ok && nb&verifBit["TOTP"] != 0 {
			honoured = true
		}
	}
	w.rep.Eval(fmt.Sprintf("totp|%s|legit=%v|honoured=%v", label, proven != 0, honoured))
	w.check("totp:"+label, presented, em, proven, "")
	if honoured && ok {
		w.mu.Lock()
		if w.acceptedTOTP[sub] == nil {
			w.acceptedTOTP[sub] = map[string]bool{}
		}
		w.acceptedTOTP[sub][code] = true
		w.mu.Unlock()
	}
	return honoured
}

func (w *c05World) vipOTP(s *c05Session, users map[string]*c05User, otp int, label string) {
	presented := s.Auth
	sub, _, ok := w.info(s.Auth)
	r := w.do(verifReq{Method: "POST", Path: "/api/v0/vipAuth", Form: url.Values{"OTP": {fmt.Sprintf("%06d", otp)}}, Cookies: w.cookies(s, nil)})
	w.log("vipOTP(%s,%s)=%d", sub, label, r.Code)
	proven := 0
	if ok && users[sub] != nil && users[sub].VIPOTP == otp {
		proven = verifBit["SymantecVIP"]
	}
	em := w.adopt(s, r)
	w.rep.Eval(fmt.Sprintf("vipotp|%s|legit=%v|%d", label, proven != 0, r.Code))
	w.check("vip-otp:"+label, presented, em, proven, "")
}

func (w *c05World) pushStart(s *c05Session, vipFrom *c05Session) {
	presented := s.Auth
	sub, _, ok := w.info(s.Auth)
	r := w.do(verifReq{Method: "POST", Path: "/api/v0/vipPushStart", Cookies: w.cookies(s, vipFrom)})
	w.log("pushStart(%s,cookie=%s)=%d", sub, short(vipFrom.VIP), r.Code)
	w.rep.Eval(fmt.Sprintf("pushstart|%d", r.Code))
	if r.Code == 200 && ok && vipFrom.VIP != "" {
		w.mu.Lock()
		w.pushFor[vipFrom.VIP] = sub
		w.mu.Unlock()
	}
	w.check("push-start", presented, w.adopt(s, r), 0, "")
}

func (w *c05World) approve(u *c05User) {
	n := w.vip.ApproveOnDevice(u.Name)
	w.log("approveOnDevice(%s)=%d", u.Name, n)
}

func (w *c05World) poll(s *c05Session, vipFrom *c05Session, label string) {
	presented := s.Auth
	sub, _, ok := w.info(s.Auth)
	r := w.do(verifReq{Method: "GET", Path: "/api/v0/vipPollCheck", Cookies: w.cookies(s, vipFrom)})
	proven := 0
	w.mu.Lock()
	startedFor := w.pushFor[vipFrom.VIP]
	w.mu.Unlock()
	if ok && startedFor == sub && sub != "" {
		// approved on the device of that same user?
		w.vip.mu.Lock()
		for _, tx := range w.vip.Tx {
			if tx.User == sub && tx.Approved {
				proven = verifBit["SymantecVIP"]
			}
		}
		w.vip.mu.Unlock()
	}
	w.log("poll(%s,cookie=%s startedFor=%s)=%d", sub, short(vipFrom.VIP), startedFor, r.Code)
	em := w.adopt(s, r)
	w.rep.Eval(fmt.Sprintf("poll|%s|legit=%v|%d", label, proven != 0, r.Code))
	w.check("vip-poll:"+label, presented, em, proven, "")
}

func short(s string) string {
	if len(s) > 6 {
		return s[:6]
	}
	return s
}

func (w *c05World) u2fBegin(s *c05Session) {
	presented := s.Auth
	sub, _, ok := w.info(s.Auth)
	req, r := verifU2FBegin(w.env, s.Auth)
	w.log("u2fBegin(%s)=%d", sub, r.Code)
	w.rep.Eval(fmt.Sprintf("u2fbegin|%d", r.Code))
	if req != nil && ok {
		w.mu.Lock()
		w.challenge[sub] = &c05Challenge{Value: req.Challenge, AppID: req.AppID, Kind: "u2f", IssuedAt: time.Now()}
		w.mu.Unlock()
	}
	w.check("u2f-begin", presented, w.adopt(s, r), 0, "")
}

// u2fFinish: signer = whose token signs, over = whose challenge is signed
func (w *c05World) u2fFinish(s *c05Session, users map[string]*c05User, signer, over string, replay bool, label string) {
	presented := s.Auth
	sub, _, ok := w.info(s.Auth)
	w.mu.Lock()
	ch := w.challenge[over]
	var chv, app string
	var chUsed bool
	var chAge time.Duration
	if ch != nil {
		chv, app, chUsed, chAge = ch.Value, ch.AppID, ch.Used, time.Since(ch.IssuedAt)
	}
	prev, prevCh := w.lastAssert[signer], w.lastAssertCh[signer]
	w.mu.Unlock()
	if ch == nil || users[signer] == nil || users[signer].Token == nil || ch.Kind != "u2f" {
		return
	}
	var resp map[string]string
	assertCh := chv // the challenge value the presented response was made over
	if replay && prev != nil {
		resp, assertCh = prev, prevCh
	} else {
		resp = users[signer].Token.SignResponse(app, chv)
		replay = false
	}
	r := verifU2FFinish(w.env, s.Auth, resp)
	proven := 0
	// legitimate: own token, over the challenge currently pending for this very user, not yet honoured, fresh.  A
	// response shown before counts too as long as it was never honoured (e.g. it was first sent with another session
	// and refused there): the one-time value is the challenge, spent when a response over it is honoured.
	w.mu.Lock()
	cur := w.challenge[sub]
	if ok && signer == sub && cur != nil && cur.Kind == "u2f" && cur.Value == assertCh && !cur.Used && time.Since(cur.IssuedAt) < 30*time.Second {
		proven = verifBit["U2F"]
	}
	w.lastAssert[signer], w.lastAssertCh[signer] = resp, assertCh
	w.mu.Unlock()
	_ = chUsed
	em := w.adopt(s, r)
	honoured := false
	if em != "" {
		if _, nb, ok := w.info(em); ok && nb&verifBit["U2F"] != 0 {
			honoured = true
		}
	}
	w.log("u2fFinish(session=%s signer=%s over=%s replay=%v age=%s)=%d", sub, signer, over, replay, chAge.Round(time.Second), r.Code)
	w.rep.Eval(fmt.Sprintf("u2ffinish|%s|legit=%v|honoured=%v", label, proven != 0, honoured))
	w.check("u2f-finish:"+label, presented, em, proven, "")
	if honoured {
		w.mu.Lock()
		if c := w.challenge[sub]; c != nil && c.Value == assertCh {
			c.Used = true
		}
		w.mu.Unlock()
	}
}

func (w *c05World) waBegin(s *c05Session) {
	presented := s.Auth
	sub, _, ok := w.info(s.Auth)
	r := w.do(verifReq{Method: "GET", Path: "/webauthn/AuthBegin/", Cookies: w.cookies(s, nil)})
	w.rep.Eval(fmt.Sprintf("wabegin|%d", r.Code))
	var opts struct {
		PublicKey struct {
			Challenge string `json:"challenge"`
		} `json:"publicKey"`
	}
	if r.Code == 200 && json.Unmarshal(r.Body, &opts) == nil && opts.PublicKey.Challenge != "" && ok {
		// the browser-side script turns the JSON challenge into bytes; clientDataJSON carries base64url without padding
		chal := opts.PublicKey.Challenge
		for _, enc := range []*base64.Encoding{base64.StdEncoding, base64.RawStdEncoding, base64.URLEncoding, base64.RawURLEncoding} {
			if b, err := enc.DecodeString(opts.PublicKey.Challenge); err == nil {
				chal = base64.RawURLEncoding.EncodeToString(b)
				break
			}
		}
		w.mu.Lock()
		w.challenge[sub] = &c05Challenge{Value: chal, AppID: verifIssuer, Kind: "webauthn", IssuedAt: time.Now()}
		w.mu.Unlock()
	}
	w.log("waBegin(%s)=%d", sub, r.Code)
	w.check("webauthn-begin", presented, w.adopt(s, r), 0, "")
}

func (w *c05World) waFinish(s *c05Session, users map[string]*c05User, signer, over string, label string) {
	presented := s.Auth
	sub, _, ok := w.info(s.Auth)
	w.mu.Lock()
	ch := w.challenge[over]
	var chv string
	var chUsed bool
	var chAge time.Duration
	if ch != nil {
		chv, chUsed, chAge = ch.Value, ch.Used, time.Since(ch.IssuedAt)
	}
	cur := w.challenge[sub]
	w.mu.Unlock()
	if ch == nil || users[signer] == nil || users[signer].Token == nil || ch.Kind != "webauthn" {
		return
	}
	body := users[signer].Token.WebAuthnAssertion(verifIssuer, verifIssuer, chv)
	r := w.do(verifReq{Method: "POST", Path: "/webauthn/AuthFinish/", RawBody: body, RawCT: "application/json", Cookies: w.cookies(s, nil)})
	proven := 0
	if ok && signer == sub && over == sub && cur != nil && cur.Value == chv && !chUsed && chAge < 30*time.Second {
		proven = verifBit["U2F"] | verifBit["FIDO2"]
	}
	em := w.adopt(s, r)
	honoured := false
	if em != "" {
		if _, nb, ok := w.info(em); ok && nb&verifBit["U2F"] != 0 {
			honoured = true
		}
	}
	w.log("waFinish(session=%s signer=%s over=%s)=%d", sub, signer, over, r.Code)
	w.rep.Eval(fmt.Sprintf("wafinish|%s|legit=%v|honoured=%v", label, proven != 0, honoured))
	w.check("webauthn-finish:"+label, presented, em, proven, "")
	if honoured {
		w.rep.Count("webauthn_honoured", 1)
		w.mu.Lock()
		if c := w.challenge[sub]; c != nil && c.Value == chv {
			c.Used = true
		}
		w.mu.Unlock()
	}
}

func (w *c05World) bootstrap(s *c05Session, otp string, label string) bool {
	presented := s.Auth
	sub, _, ok := w.info(s.Auth)
	r := w.do(verifReq{Method: "POST", Path: "/api/v0/bootstrapOtpAuth", Form: url.Values{"OTP": {otp}}, Cookies: w.cookies(s, nil)})
	proven := 0
	w.mu.Lock()
	if ok && otp != "" && w.bootstrapOf[otp] == sub {
		proven = verifBit["BootstrapOTP"]
	}
	w.mu.Unlock()
	em := w.adopt(s, r)
	honoured := false
	if em != "" {
		if _, nb, ok := w.info(em); ok && nb&verifBit["BootstrapOTP"] != 0 {
			honoured = true
		}
	}
	w.log("bootstrap(%s,%s)=%d", sub, label, r.Code)
	w.rep.Eval(fmt.Sprintf("bootstrap|%s|legit=%v|honoured=%v", label, proven != 0, honoured))
	w.check("bootstrap:"+label, presented, em, proven, "")
	if honoured {
		w.mu.Lock()
		delete(w.bootstrapOf, otp) // one-time
		w.mu.Unlock()
	}
	return honoured
}

// failWrites makes every write to the primary store fail (reads keep working).
func (w *c05World) failWrites(on bool) {
	if w.primaryLabel == "" {
		return
	}
	if !on {
		verifSQL.SetHook(w.primaryLabel, nil)
		return
	}
	verifSQL.SetHook(w.primaryLabel, func(op verifSQLOp) error {
		if op.Kind == "begin" || op.Kind == "commit" || op.IsWrite() {
			return errVerifInjected
		}
		return nil
	})
}

// bootstrapNoSpend presents the OTP while the store is failing: whether it is
// honoured is observed; the ground truth keeps the OTP as unspent only if it was not.
func (w *c05World) bootstrapNoSpend(s *c05Session, otp, label string) bool {
	presented := s.Auth
	sub, _, _ := w.info(s.Auth)
	r := w.do(verifReq{Method: "POST", Path: "/api/v0/bootstrapOtpAuth", Form: url.Values{"OTP": {otp}}, Cookies: w.cookies(s, nil)})
	em := ""
	if c := r.Cookie("auth_cookie"); c != nil {
		em = c.Value
	}
	honoured := false
	if em != "" {
		if _, nb, ok := w.info(em); ok && nb&verifBit["BootstrapOTP"] != 0 {
			honoured = true
		}
	}
	w.log("bootstrap(%s,%s)=%d honoured=%v", sub, label, r.Code, honoured)
	proven := 0
	w.mu.Lock()
	if w.bootstrapOf[otp] == sub {
		proven = verifBit["BootstrapOTP"]
	}
	if honoured {
		delete(w.bootstrapOf, otp)
	}
	w.mu.Unlock()
	w.check("bootstrap:"+label, presented, em, proven, "")
	return honoured
}

func (w *c05World) showToken(s *c05Session) string {
	presented := s.Auth
	sub, _, ok := w.info(s.Auth)
	r := w.do(verifReq{Method: "GET", Path: "/showAuthToken", Cookies: w.cookies(s, nil), Header: map[string]string{"Accept": "text/html"}})
	w.rep.Eval(fmt.Sprintf("showtoken|%d", r.Code))
	tok := ""
	if r.Code == 200 {
		tok = verifJWSRe.FindString(string(r.Body))
	}
	if tok != "" && ok {
		w.mu.Lock()
		w.cliOwner[tok] = sub
		w.mu.Unlock()
	}
	w.check("show-token", presented, w.adopt(s, r), 0, "")
	return tok
}

func (w *c05World) sendAuthDoc(s *c05Session, tok string, tokValid bool, label string) {
	presented := s.Auth
	sub, _, ok := w.info(s.Auth)
	r := w.do(verifReq{Method: "GET", Path: "/sendAuthDocument?port=12345&token=" + url.QueryEscape(tok), Cookies: w.cookies(s, nil)})
	em := ""
	if r.Code >= 300 && r.Code < 400 {
		if lu, err := url.Parse(r.Header.Get("Location")); err == nil {
			em = lu.Query().Get("auth_cookie")
		}
	}
	proven := 0
	w.mu.Lock()
	if ok && tokValid && w.cliOwner[tok] == sub {
		proven = verifBit["WebauthForCLI"]
	}
	w.mu.Unlock()
	w.log("sendAuthDoc(%s,%s)=%d", sub, label, r.Code)
	w.rep.Eval(fmt.Sprintf("sendauthdoc|%s|legit=%v|emitted=%v", label, proven != 0, em != ""))
	if em != "" {
		// the CLI cookie is a fresh artefact for the same subject carrying only the CLI bit
		nsub, nbits, okn := w.info(em)
		if okn && (nsub != sub || nbits&^verifBit["WebauthForCLI"] != 0 || proven == 0) {
			w.rep.Violate("C05/cli-cookie/"+label, fmt.Sprintf("CLI cookie for %q bits %#x emitted to a session of %q (legit=%v)", nsub, nbits, sub, proven != 0),
				map[string]interface{}{"label": label})
		} else if okn {
			w.rep.Count("legit_gain_WebauthForCLI", 1)
			w.rep.Count("cookies_checked", 1)
		}
	}
	w.check("send-auth-document", presented, w.adopt(s, r), 0, "")
}

// ---- world construction -----------------------------------------------------

func c05NewWorld(t *testing.T, rep *verifReport) *c05World {
	vip := newVerifFakeVIP()
	env, err := verifNewEnv(verifStateOpts{Name: "c05", AllowedCerts: []string{"U2F", "TOTP", "SymantecVIP"}, AllowedWebUI: []string{"password"},
		AdminUsers: []string{"root1"}, EnableTOTP: true, EnableBootstrap: true, VIP: true, CLILifetime: "1h", Users: map[string]string{"x": "y"}})
	if err != nil {
		t.Fatal(err)
	}
	env.InstallFakeVIP(vip)
	env.SetPasswordChecker(verifPWFunc(func(u string, p []byte) (bool, error) { return string(p) == "pw-"+u, nil }))
	trust, err := verifPublishedTrust(env)
	if err != nil {
		t.Fatal(err)
	}
	pl, _, err := env.HookDBs()
	if err != nil {
		t.Fatal(err)
	}
	return &c05World{primaryLabel: pl, env: env, rep: rep, vip: vip, trust: trust, acceptedTOTP: map[string]map[string]bool{}, pushFor: map[string]string{},
		challenge: map[string]*c05Challenge{}, cliOwner: map[string]string{}, bootstrapOf: map[string]string{}, lastAssert: map[string]map[string]string{}, lastAssertCh: map[string]string{}}
}

var c05VIPSeq int

func (w *c05World) newUser(name string, withTokens bool) *c05User {
	u := &c05User{Name: name, Password: "pw-" + name}
	w.mu.Lock()
	c05VIPSeq++
	u.VIPOTP = 100000 + c05VIPSeq*7
	w.mu.Unlock()
	w.vip.SetOTP(name, u.VIPOTP)
	if withTokens {
		ck, _ := verifLogin(w.env, name, u.Password)
		var err error
		if u.Secret, err = verifEnrollTOTP(w.env, ck); err != nil {
			w.rep.Inconc("TOTP enrolment of %s: %v", name, err)
		}
		u.Token = newVerifU2FToken()
		if err := verifEnrollU2F(w.env, ck, name, u.Token); err != nil {
			w.rep.Inconc("U2F enrolment of %s: %v", name, err)
		}
	}
	return u
}

func (w *c05World) issueBootstrap(admin string, u *c05User, duration string) {
	ack, _ := verifLogin(w.env, admin, "pw-"+admin)
	verifAdminAddUser(w.env, ack, u.Name)
	otp, r := verifAdminBootstrapOTP(w.env, ack, u.Name, duration)
	if otp == "" {
		w.rep.Inconc("bootstrap OTP for %s: %d", u.Name, r.Code)
		return
	}
	u.Bootstrap = otp
	w.mu.Lock()
	w.bootstrapOf[otp] = u.Name
	w.mu.Unlock()
}

func TestVerifC05(t *testing.T) {
	rep := newVerifReport("C05", "multi-step, multi-user histories against the real handlers with faked external parties: scripted cross-user scenarios (push approved for A polled by B, other user's TOTP / VIP OTP / bootstrap OTP / CLI token, hardware-token assertion by the other user's token or over the other user's challenge, replayed assertion, replayed TOTP code in the same and in the next 30-s step, expired challenge, expired and reused bootstrap OTP, expired CLI token) plus seeded random walks over login / TOTP / VIP OTP / push start / device approval / poll / U2F and WebAuthn begin+finish / bootstrap / CLI-token steps by two users over three sessions where any obtained cookie may be attached to any request; online monitor: subject never changes, gained bits are a subset of legitimately proven ones; class = (step kind, variant, legit, honoured)")
	defer rep.Finish()
	w := c05NewWorld(t, rep)
	defer w.vip.Server.Close()
	var wg sync.WaitGroup
	scenario := func(name string, f func()) {
		wg.Add(1)
		go func() {
			defer wg.Done()
			defer func() {
				if p := recover(); p != nil {
					rep.Inconc("scenario %s panicked: %v", name, p)
				}
			}()
			f()
			rep.Count("scenarios_completed", 1)
		}()
	}
	// S1: push started and approved for A, polled from B's session with A's push cookie
	scenario("push-cross-user", func() {
		a, b := w.newUser("s1a", false), w.newUser("s1b", false)
		users := map[string]*c05User{a.Name: a, b.Name: b}
		_ = users
		sa, sb := &c05Session{}, &c05Session{}
		w.login(sa, a, true)
		w.login(sb, b, true)
		w.pushStart(sa, sa)
		w.poll(sa, sa, "own-before-approval")
		w.poll(sb, sa, "other-users-transaction-before-approval")
		w.approve(a)
		w.poll(sb, sa, "other-users-approved-transaction")
		w.poll(sa, sa, "own-approved")
		w.poll(sb, sb, "own-cookie-no-transaction")
		// B starts its own push but only A approves on A's device
		w.pushStart(sb, sb)
		w.approve(a)
		w.poll(sb, sb, "own-transaction-approved-on-other-device")
		w.approve(b)
		w.poll(sb, sb, "own-approved-2")
	})
	// S2: OTP values of the other user
	scenario("otp-cross-user", func() {
		a, b := w.newUser("s2a", true), w.newUser("s2b", true)
		users := map[string]*c05User{a.Name: a, b.Name: b}
		sa, sb := &c05Session{}, &c05Session{}
		w.login(sa, a, true)
		w.login(sb, b, true)
		w.vipOTP(sb, users, a.VIPOTP, "other-users")
		w.vipOTP(sb, users, b.VIPOTP, "own")
		w.totp(sb, users, verifTOTPCode(a.Secret, time.Now()), "other-users")
		time.Sleep(2100 * time.Millisecond)
		code := verifTOTPCode(a.Secret, time.Now())
		if w.totp(sa, users, code, "own-fresh") {
			// replay in the same step (after the 2 s spacing so that it is evaluated)
			time.Sleep(2100 * time.Millisecond)
			sa2 := &c05Session{}
			w.login(sa2, a, true)
			w.totp(sa2, users, code, "replayed-same-window")
			// replay in the next 30-s step: the library still accepts the previous step's code
			next := time.Unix((time.Now().Unix()/30+1)*30, 0).Add(200 * time.Millisecond)
			time.Sleep(time.Until(next))
			time.Sleep(2100 * time.Millisecond)
			sa3 := &c05Session{}
			w.login(sa3, a, true)
			w.totp(sa3, users, code, "replayed-next-step")
			rep.Count("totp_replay_next_step_checked", 1)
		}
		// stale code (3 steps old)
		time.Sleep(2100 * time.Millisecond)
		w.totp(sb, users, verifTOTPCode(b.Secret, time.Now().Add(-95*time.Second)), "stale-3-steps")
	})
	// S3: hardware token confusions
	scenario("u2f-cross-user", func() {
		a, b := w.newUser("s3a", true), w.newUser("s3b", true)
		users := map[string]*c05User{a.Name: a, b.Name: b}
		sa, sb := &c05Session{}, &c05Session{}
		w.login(sa, a, true)
		w.login(sb, b, true)
		w.u2fBegin(sa)
		w.u2fBegin(sb)
		w.u2fFinish(sb, users, a.Name, b.Name, false, "other-users-token-own-challenge")
		w.u2fFinish(sb, users, b.Name, a.Name, false, "own-token-other-users-challenge")
		w.u2fFinish(sb, users, a.Name, a.Name, false, "other-users-token-and-challenge")
		w.u2fFinish(sb, users, b.Name, b.Name, false, "own")
		w.u2fFinish(sb, users, b.Name, b.Name, true, "replayed-response")
		sb2 := &c05Session{}
		w.login(sb2, b, true)
		w.u2fFinish(sb2, users, b.Name, b.Name, false, "fresh-response-consumed-challenge")
		// WebAuthn (fido-u2f path)
		w.waBegin(sa)
		w.waBegin(sb2)
		w.waFinish(sb2, users, a.Name, b.Name, "other-users-token")
		w.waFinish(sb2, users, b.Name, a.Name, "other-users-challenge")
		w.waFinish(sa, users, a.Name, a.Name, "own")
		sa2 := &c05Session{}
		w.login(sa2, a, true)
		w.waFinish(sa2, users, a.Name, a.Name, "consumed-challenge")
	})
	// S4: expired hardware-token challenge (real 31 s wait)
	scenario("u2f-expired-challenge", func() {
		a := w.newUser("s4a", true)
		users := map[string]*c05User{a.Name: a}
		sa := &c05Session{}
		w.login(sa, a, true)
		w.u2fBegin(sa)
		time.Sleep(31500 * time.Millisecond)
		w.u2fFinish(sa, users, a.Name, a.Name, false, "expired-challenge")
		rep.Count("expired_challenge_checked", 1)
	})
	// S2b: a push that is answered with anything but "approved" (denied on the device, expired, timed out, service
	// error, an unknown or empty status) never raises the session, however often it is polled
	scenario("vip-push-not-approved", func() {
		for i, status := range []string{"7002", "7003", "7004", "7006", "7005", "7010", "0000", "", "approved", "7000 "} {
			u := w.newUser(fmt.Sprintf("s2b%d", i), true)
			s := &c05Session{}
			w.login(s, u, true)
			w.pushStart(s, s)
			n := w.vip.AnswerOnDevice(u.Name, status)
			w.log("answerOnDevice(%s,status=%q)=%d", u.Name, status, n)
			for k := 0; k < 3; k++ {
				w.poll(s, s, "push-answered-"+status)
			}
			rep.Count("not_approved_pushes_polled", n)
		}
	})
	// S2c: a push transaction is the business of the user it was started for.  A second start on the same push cookie -
	// ten seconds later, from another user's session - followed by that other user's approval on her own device must
	// not raise the first user's session (nor anybody's, through the first user's cookie, beyond what they approved)
	scenario("vip-push-restarted-by-other-user", func() {
		a, m := w.newUser("s2ca", true), w.newUser("s2cm", true)
		sa, sm := &c05Session{}, &c05Session{}
		w.login(sa, a, true)
		w.login(sm, m, true)
		w.pushStart(sa, sa) // goes to a's device; a never approves
		time.Sleep(11 * time.Second)
		w.pushStart(sm, sa) // m's session with a's push cookie
		w.approve(m)        // m approves what reached her device
		for k := 0; k < 3; k++ {
			w.poll(sa, sa, "restarted-by-other-user")
		}
		w.poll(sm, sa, "restarted-by-other-user:own-approval")
		rep.Count("push_restart_checked", 1)
	})
	// S4b: an expired challenge of one hardware-token ceremony must stay dead when the same user starts the other kind of
	// ceremony afterwards (both ceremonies keep their pending challenge in one per-user record); same real wait
	scenario("expired-challenge-other-ceremony", func() {
		x, y := w.newUser("s4x", true), w.newUser("s4y", true)
		sx, sx2, sy, sy2 := &c05Session{}, &c05Session{}, &c05Session{}, &c05Session{}
		for s, u := range map[*c05Session]*c05User{sx: x, sx2: x, sy: y, sy2: y} {
			w.login(s, u, true)
		}
		w.waBegin(sx)
		w.u2fBegin(sy)
		w.mu.Lock()
		oldWA, oldU2F := w.challenge[x.Name], w.challenge[y.Name]
		w.mu.Unlock()
		if oldWA == nil || oldWA.Kind != "webauthn" || oldU2F == nil || oldU2F.Kind != "u2f" {
			rep.Inconc("expired-challenge-other-ceremony: could not obtain the two challenges")
			return
		}
		time.Sleep(31500 * time.Millisecond)
		w.u2fBegin(sx2) // user x starts a U2F ceremony from another session
		w.waBegin(sy2)  // user y starts a WebAuthn ceremony from another session
		// x answers the long expired WebAuthn challenge
		presented := sx.Auth
		body := x.Token.WebAuthnAssertion(verifIssuer, verifIssuer, oldWA.Value)
		r := w.do(verifReq{Method: "POST", Path: "/webauthn/AuthFinish/", RawBody: body, RawCT: "application/json", Cookies: w.cookies(sx, nil)})
		w.log("waFinish(session=%s over its own WebAuthn challenge issued 31 s ago, after a U2F sign request)=%d", x.Name, r.Code)
		w.rep.Eval(fmt.Sprintf("wafinish|expired-after-other-ceremony|%d", r.Code))
		w.check("webauthn-finish:expired-challenge-after-u2f-sign-request", presented, w.adopt(sx, r), 0, "")
		// y answers the long expired U2F challenge
		presented = sy.Auth
		r2 := verifU2FFinish(w.env, sy.Auth, y.Token.SignResponse(oldU2F.AppID, oldU2F.Value))
		w.log("u2fFinish(session=%s over its own U2F challenge issued 31 s ago, after a WebAuthn begin)=%d", y.Name, r2.Code)
		w.rep.Eval(fmt.Sprintf("u2ffinish|expired-after-other-ceremony|%d", r2.Code))
		w.check("u2f-finish:expired-challenge-after-webauthn-begin", presented, w.adopt(sy, r2), 0, "")
		rep.Count("expired_challenge_checked", 2)
	})
	// S4c: the request is authenticated by one user's TLS client certificate while the session cookie attached to it
	// is another user's: whatever factor the certificate's owner proves, the other user's session must not gain it
	scenario("client-certificate-of-a-with-cookie-of-b", func() {
		a, b := w.newUser("s4ca", true), w.newUser("s4cb", true)
		users := map[string]*c05User{a.Name: a, b.Name: b}
		_ = users
		key := verifUserECKey()
		leaf := verifMakeLeaf(a.Name, key.Public(), w.env.UserCACert(), verifSigner("ca_rsa2048"), time.Now().Add(-time.Hour), time.Now().Add(time.Hour), nil)
		cs := w.env.TLSFor(leaf)
		if cs == nil {
			rep.Inconc("client-certificate scenario: the certificate does not verify")
			return
		}
		type step struct {
			name string
			mk   func(sb *c05Session) verifReq
		}
		steps := []step{
			{"totp", func(sb *c05Session) verifReq {
				return verifReq{Method: "POST", Path: "/api/v0/TOTPAuth", Form: url.Values{"OTP": {verifTOTPCode(a.Secret, time.Now())}}}
			}},
			{"vip-otp", func(sb *c05Session) verifReq {
				return verifReq{Method: "POST", Path: "/api/v0/vipAuth", Form: url.Values{"OTP": {fmt.Sprintf("%06d", a.VIPOTP)}}}
			}},
		}
		for _, st := range steps {
			sb := &c05Session{}
			w.login(sb, b, true)
			presented := sb.Auth
			q := st.mk(sb)
			q.Cookies = w.cookies(sb, nil)
			q.TLS = cs
			time.Sleep(2100 * time.Millisecond) // the owner's own limiter spacing
			r := w.do(q)
			w.log("%s(certificate of %s, cookie of %s, factor of %s)=%d", st.name, a.Name, b.Name, a.Name, r.Code)
			w.rep.Eval(fmt.Sprintf("mixed-credentials|%s|%d", st.name, r.Code))
			w.rep.Count("mixed_credential_requests", 1)
			w.check("client-certificate-of-a-cookie-of-b:"+st.name, presented, w.adopt(sb, r), 0, "")
		}
		// hardware token: A's certificate starts and finishes a ceremony with A's token while B's cookie rides along
		sb := &c05Session{}
		w.login(sb, b, true)
		presented := sb.Auth
		r0 := w.do(verifReq{Method: "GET", Path: "/u2f/SignRequest", Cookies: w.cookies(sb, nil), TLS: cs})
		var req struct {
			AppID     string `json:"appId"`
			Challenge string `json:"challenge"`
		}
		if r0.Code == 200 && json.Unmarshal(r0.Body, &req) == nil && req.Challenge != "" {
			body, _ := jsonMarshal(a.Token.SignResponse(req.AppID, req.Challenge))
			r := w.do(verifReq{Method: "POST", Path: "/u2f/SignResponse", RawBody: body, RawCT: "application/json", Cookies: w.cookies(sb, nil), TLS: cs})
			w.log("u2f(certificate of %s, cookie of %s, token of %s)=%d", a.Name, b.Name, a.Name, r.Code)
			w.rep.Eval(fmt.Sprintf("mixed-credentials|u2f|%d", r.Code))
			w.rep.Count("mixed_credential_requests", 1)
			w.check("client-certificate-of-a-cookie-of-b:u2f", presented, w.adopt(sb, r), 0, "")
		} else {
			w.rep.Eval(fmt.Sprintf("mixed-credentials|u2f-begin|%d", r0.Code))
		}
	})
	// S5: bootstrap OTP: other user's, own, reused, expired
	scenario("bootstrap", func() {
		c, d, e := w.newUser("s5c", false), w.newUser("s5d", false), w.newUser("s5e", false)
		w.issueBootstrap("root1", c, "")
		w.issueBootstrap("root1", d, "")
		w.issueBootstrap("root1", e, "1m")
		sc, sd, se := &c05Session{}, &c05Session{}, &c05Session{}
		w.login(sc, c, true)
		w.login(sd, d, true)
		w.login(se, e, true)
		w.bootstrap(sd, c.Bootstrap, "other-users")
		w.bootstrap(sc, "wrong-value", "wrong")
		w.bootstrap(sc, c.Bootstrap, "own")
		sc2 := &c05Session{}
		w.login(sc2, c, true)
		w.bootstrap(sc2, c.Bootstrap, "reused")
		// expired: the stored expiry is aged (state equal to 'time has passed')
		if err := w.env.AgeBootstrapOTP(e.Name, 2*time.Minute); err != nil {
			rep.Inconc("cannot age bootstrap OTP: %v", err)
		} else {
			w.mu.Lock()
			delete(w.bootstrapOf, e.Bootstrap)
			w.mu.Unlock()
			w.bootstrap(se, e.Bootstrap, "expired")
			rep.Count("expired_bootstrap_checked", 1)
		}
		w.bootstrap(sd, d.Bootstrap, "own-2")
	})
	// S6: CLI tokens
	scenario("cli-token", func() {
		a, b := w.newUser("s6a", false), w.newUser("s6b", false)
		sa, sb := &c05Session{}, &c05Session{}
		w.login(sa, a, true)
		w.login(sb, b, true)
		ta := w.showToken(sa)
		tb := w.showToken(sb)
		if ta == "" || tb == "" {
			rep.Inconc("no CLI token obtained")
			return
		}
		// a real token's validity window is the configured one (webauth_token_for_cli_lifetime: 1h): otherwise "expired
		// tokens never work" is empty for real tokens
		for _, tok := range []string{ta, tb} {
			if _, pl, _, ok := verifSplitJWS(tok); ok {
				var cl verifClaims
				if json.Unmarshal(pl, &cl) == nil {
					life := verifClaimInt(cl, "exp") - verifClaimInt(cl, "iat")
					rep.Eval(fmt.Sprintf("cli-token|lifetime<=1h=%v", life <= 3600))
					rep.Count("cli_token_lifetimes_checked", 1)
					if life > 3600+5 || verifClaimInt(cl, "exp") == 0 {
						rep.Violate("C05/cli-token-outlives-configured-lifetime", fmt.Sprintf("a CLI token minted with webauth_token_for_cli_lifetime=1h is valid for %d s", life), map[string]interface{}{"iat": verifClaimInt(cl, "iat"), "exp": verifClaimInt(cl, "exp")})
					}
				}
			}
		}
		w.sendAuthDoc(sb, ta, true, "other-users-token")
		w.sendAuthDoc(sa, ta, true, "own")
		// expired copy of a's token re-signed with the deployment key (an hour cannot be waited out)
		_, p, _, _ := verifSplitJWS(ta)
		var cl verifClaims
		json.Unmarshal(p, &cl)
		cl["exp"] = time.Now().Add(-time.Minute).Unix()
		exp := verifMint(cl, verifSigner("ca_rsa2048"))
		w.mu.Lock()
		w.cliOwner[exp] = a.Name
		w.mu.Unlock()
		w.sendAuthDoc(sa, exp, false, "expired")
		w.sendAuthDoc(sa, tb, true, "other-users-token-2")
	})
	// S6b: a password login that arrives with a stale auth cookie still attached (what a browser does after the session
	// ran out): the new session holds the password factor only, whatever the old cookie once held
	scenario("login-with-stale-cookie", func() {
		a, b := w.newUser("s6ba", true), w.newUser("s6bb", true)
		high := verifBit["password"] | verifBit["U2F"] | verifBit["TOTP"]
		ca := verifSigner("ca_rsa2048")
		stale := []struct{ kind, tok string }{
			{"own-expired-1h", verifMint(verifSessionClaims(a.Name, high, time.Now().Add(-17*time.Hour), 16*time.Hour), ca)},
			{"own-expired-5s", verifMint(verifSessionClaims(a.Name, high, time.Now().Add(-16*time.Hour-5*time.Second), 16*time.Hour), ca)},
			{"own-not-yet-valid", verifMint(verifSessionClaims(a.Name, high, time.Now().Add(time.Hour), 16*time.Hour), ca)},
			{"other-users-expired", verifMint(verifSessionClaims(b.Name, high, time.Now().Add(-17*time.Hour), 16*time.Hour), ca)},
			{"own-foreign-key", verifMint(verifSessionClaims(a.Name, high, time.Now().Add(-time.Minute), 16*time.Hour), verifSigner("user_rsa2048"))},
		}
		for _, st := range stale {
			r := w.do(verifReq{Method: "POST", Path: "/api/v0/login", Form: url.Values{"username": {a.Name}, "password": {a.Password}},
				Cookies: map[string]string{"auth_cookie": st.tok}})
			w.log("login(%s) with stale cookie %s = %d", a.Name, st.kind, r.Code)
			w.rep.Eval(fmt.Sprintf("login-with-stale-cookie|%s|%d", st.kind, r.Code))
			em := ""
			if c := r.Cookie("auth_cookie"); c != nil {
				em = c.Value
			}
			if em != "" {
				w.rep.Count("logins_with_stale_cookie_checked", 1)
			}
			w.check("login:with-stale-cookie:"+st.kind, "", em, 0, a.Name)
		}
	})
	// S7: two auth cookies in one request (the victim's and the adversary's own), the adversary proves its own factor
	scenario("two-cookies", func() {
		a, b := w.newUser("s7a", true), w.newUser("s7b", true)
		sa, sb := &c05Session{}, &c05Session{}
		w.login(sa, a, true) // victim's password-level session, known to the adversary
		w.login(sb, b, true)
		for _, order := range [][]*c05Session{{sa, sb}, {sb, sa}} {
			list := [][2]string{{"auth_cookie", order[0].Auth}, {"auth_cookie", order[1].Auth}}
			presented := []string{order[0].Auth, order[1].Auth}
			// VIP OTP of b
			r := w.do(verifReq{Method: "POST", Path: "/api/v0/vipAuth", Form: url.Values{"OTP": {fmt.Sprintf("%06d", b.VIPOTP)}}, CookieList: list})
			em := ""
			if c := r.Cookie("auth_cookie"); c != nil {
				em = c.Value
			}
			rep.Eval(fmt.Sprintf("two-cookies|vip-otp|%d", r.Code))
			w.checkMulti("two-cookies:vip-otp", presented, em, map[string]int{b.Name: verifBit["SymantecVIP"]})
			// TOTP of b
			time.Sleep(2100 * time.Millisecond)
			r = w.do(verifReq{Method: "POST", Path: "/api/v0/TOTPAuth", Form: url.Values{"OTP": {verifTOTPCode(b.Secret, time.Now())}}, CookieList: list})
			em = ""
			if c := r.Cookie("auth_cookie"); c != nil {
				em = c.Value
			}
			rep.Eval(fmt.Sprintf("two-cookies|totp|%d", r.Code))
			w.checkMulti("two-cookies:totp", presented, em, map[string]int{b.Name: verifBit["TOTP"]})
			// hardware token of b
			if req, _ := verifU2FBegin(w.env, sb.Auth); req != nil {
				body, _ := jsonMarshal(b.Token.SignResponse(req.AppID, req.Challenge))
				r = w.do(verifReq{Method: "POST", Path: "/u2f/SignResponse", RawBody: body, RawCT: "application/json", CookieList: list})
				em = ""
				if c := r.Cookie("auth_cookie"); c != nil {
					em = c.Value
				}
				rep.Eval(fmt.Sprintf("two-cookies|u2f|%d", r.Code))
				w.checkMulti("two-cookies:u2f", presented, em, map[string]int{b.Name: verifBit["U2F"]})
			}
			rep.Count("two_cookie_requests", 3)
		}
	})
	// ---- seeded random walks ---------------------------------------------------
	nPairs, steps := 4, 500
	if verifThorough() {
		nPairs, steps = 16, 3000
	}
	for pi := 0; pi < nPairs; pi++ {
		pi := pi
		scenario(fmt.Sprintf("walk-%d", pi), func() {
			rng := verifRand(fmt.Sprintf("c05-walk-%d", pi))
			a, b := w.newUser(fmt.Sprintf("w%da", pi), true), w.newUser(fmt.Sprintf("w%db", pi), true)
			users := map[string]*c05User{a.Name: a, b.Name: b}
			us := []*c05User{a, b}
			ss := []*c05Session{{}, {}, {}}
			w.login(ss[0], a, true)
			w.login(ss[1], b, true)
			w.login(ss[2], a, true)
			c05Walk(w, rng, users, us, ss, steps)
		})
	}
	wg.Wait()
	// S8: the store fails while a one-time value is being consumed: it must not be honoured, or must be spent
	// (runs alone: the fault affects the whole store)
	func() {
		c := w.newUser("s8c", false)
		w.issueBootstrap("root1", c, "")
		s1, s2 := &c05Session{}, &c05Session{}
		w.login(s1, c, true)
		w.login(s2, c, true)
		w.failWrites(true)
		h1 := w.bootstrapNoSpend(s1, c.Bootstrap, "own-while-store-fails")
		w.failWrites(false)
		h2 := w.bootstrap(s2, c.Bootstrap, "own-after-store-recovered")
		rep.Eval(fmt.Sprintf("storage-fault|bootstrap|first=%v|second=%v", h1, h2))
		if h1 && h2 {
			rep.Violate("C05/one-time-value-honoured-twice/bootstrap-otp/storage-fault", "a bootstrap OTP was honoured while its consumption could not be stored and honoured again afterwards", nil)
		}
		rep.Count("storage_fault_scenarios", 1)
		rep.Count("scenarios_completed", 1)
	}()
	// S9: the primary answers reads too slowly (they are served from the offline cache, which still holds the OTP) while
	// writes go through: a bootstrap OTP presented from several sessions must be honoured at most once
	// (runs alone: the delay affects the whole store)
	func() {
		if w.primaryLabel == "" {
			return
		}
		c := w.newUser("s9c", false)
		w.issueBootstrap("root1", c, "")
		var ss []*c05Session
		for i := 0; i < 3; i++ {
			s := &c05Session{}
			w.login(s, c, true)
			ss = append(ss, s)
		}
		if err := w.env.SyncCache(); err != nil {
			rep.Inconc("slow-reads scenario: cache synchronisation failed: %v", err)
			return
		}
		w.env.SetRemoteDBTimeout(40 * time.Millisecond)
		verifSQL.SetHook(w.primaryLabel, func(op verifSQLOp) error {
			if op.Kind == "query" {
				time.Sleep(400 * time.Millisecond) // ten times the read deadline: the cache answers
			}
			return nil
		})
		n := 0
		for i, s := range ss {
			if w.bootstrap(s, c.Bootstrap, fmt.Sprintf("slow-primary-reads-%d", i+1)) {
				n++
			}
		}
		verifSQL.SetHook(w.primaryLabel, nil)
		w.env.SetRemoteDBTimeout(20 * time.Second)
		time.Sleep(500 * time.Millisecond) // let the delayed reads drain
		rep.Eval(fmt.Sprintf("slow-reads|bootstrap|honoured=%d", n))
		rep.Count("slow_read_scenarios", 1)
		rep.Count("scenarios_completed", 1)
	}()
	for _, f := range []string{"password", "TOTP", "SymantecVIP", "U2F", "BootstrapOTP", "WebauthForCLI"} {
		rep.Floor("legit_gain_"+f, 1)
	}
	rep.Floor("cookies_checked", 60)
	rep.Floor("webauthn_honoured", 1)
	rep.Floor("expired_challenge_checked", 1)
	rep.Floor("totp_replay_next_step_checked", 1)
	rep.Floor("scenarios_completed", 13+nPairs)
	rep.Floor("logins_with_stale_cookie_checked", 5)
	rep.Floor("slow_read_scenarios", 1)
	rep.Floor("mixed_credential_requests", 2)
	rep.Floor("cli_token_lifetimes_checked", 2)
	rep.Floor("not_approved_pushes_polled", 8)
	rep.Floor("push_restart_checked", 1)
	rep.Floor("two_cookie_requests", 6)
	rep.Floor("storage_fault_scenarios", 1)
	rep.Assume("Okta OTP/push level upgrades are exercised in C17's Okta deployment for redirects only; the push service, directory-less password backend and hardware tokens are local fakes / soft tokens")
}

func c05Walk(w *c05World, rng *rand.Rand, users map[string]*c05User, us []*c05User, ss []*c05Session, steps int) {
	for i := 0; i < steps; i++ {
		s := ss[rng.Intn(len(ss))]
		o := ss[rng.Intn(len(ss))]
		u := us[rng.Intn(len(us))]
		v := us[rng.Intn(len(us))]
		switch rng.Intn(14) {
		case 0:
			w.login(s, u, rng.Intn(5) != 0)
		case 1:
			w.totp(s, users, verifTOTPCode(u.Secret, time.Now()), "walk")
		case 2:
			w.vipOTP(s, users, u.VIPOTP, "walk")
		case 3:
			w.pushStart(s, o)
		case 4:
			w.approve(u)
		case 5:
			w.poll(s, o, "walk")
		case 6:
			w.u2fBegin(s)
		case 7:
			w.u2fFinish(s, users, u.Name, v.Name, rng.Intn(4) == 0, "walk")
		case 8:
			w.waBegin(s)
		case 9:
			w.waFinish(s, users, u.Name, v.Name, "walk")
		case 10:
			if tok := w.showToken(s); tok != "" {
				w.sendAuthDoc(o, tok, true, "walk")
			}
		case 11:
			// logout: the cookie is cleared client side
			w.do(verifReq{Method: "GET", Path: "/api/v0/logout", Cookies: w.cookies(s, nil)})
			w.login(s, u, true)
		case 12:
			w.bootstrap(s, "not-an-otp", "walk-wrong")
		case 13:
			// level reset: fresh password session in this slot
			w.login(s, v, true)
		}
	}
	_ = strings.Join
}
