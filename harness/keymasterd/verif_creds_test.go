package main

// Credential shapes shared by C01 / C04 / C06 / C09.  Every shape knows, by
// construction, whether it is valid and which user / factor bits it proves;
// that knowledge never comes from the code under test.

import (
	"strings"
	"crypto"
	"crypto/x509"
	"crypto/x509/pkix"
	"encoding/asn1"
	"fmt"
	"net"
	"time"

	"github.com/go-jose/go-jose/v4"
)

type verifCred struct {
	Name    string
	Kind    string // none | basic | cookie | cert
	Valid   bool   // valid by construction for SOME endpoint
	User    string // identity proven when valid
	Bits    int    // factor bits proven when valid
	Why     string // why invalid
	Apply   func(q *verifReq)
	IPCert  bool
	Outside bool // IP cert presented from outside its netblocks
}

type verifCredWorld struct {
	Env       *verifEnv
	CA        crypto.Signer
	User      string
	Password  string
	AutoUser  string
	InsideIP  string // inside the IP certificate's netblock
	OutsideIP string
}

// RFC 3779 extension value for a list of IPv4 netblocks (independent encoder)
type verifIPFam struct {
	AddressFamily []byte
	Addresses     []asn1.BitString
}

func verifIPExtension(blocks []net.IPNet) pkix.Extension {
	fam := verifIPFam{AddressFamily: []byte{0, 1, 1}}
	for _, b := range blocks {
		ones, _ := b.Mask.Size()
		ip := b.IP.To4()
		n := (ones + 7) / 8
		fam.Addresses = append(fam.Addresses, asn1.BitString{Bytes: append([]byte{}, ip[:n]...), BitLength: ones})
	}
	val, err := asn1.Marshal([]verifIPFam{fam})
	if err != nil {
		panic(err)
	}
	return pkix.Extension{Id: verifOIDIPDelegation, Value: val}
}

func mustCIDR(s string) net.IPNet {
	_, n, err := net.ParseCIDR(s)
	if err != nil {
		panic(err)
	}
	return *n
}

func (w *verifCredWorld) cookieCred(name string, claims verifClaims, valid bool, bits int, why string, tok string) verifCred {
	return verifCred{Name: name, Kind: "cookie", Valid: valid, User: w.User, Bits: bits, Why: why,
		Apply: func(q *verifReq) {
			if q.Cookies == nil {
				q.Cookies = map[string]string{}
			}
			q.Cookies["auth_cookie"] = tok
		}}
}

// Shapes builds the full list.  bitSets selects which factor-bit cookies to add.
func (w *verifCredWorld) Shapes() []verifCred {
	now := time.Now()
	var out []verifCred
	out = append(out, verifCred{Name: "none", Kind: "none", Why: "no credential", Apply: func(q *verifReq) {}})
	out = append(out, verifCred{Name: "basic-right", Kind: "basic", Valid: true, User: w.User, Bits: verifBit["password"],
		Apply: func(q *verifReq) { q.UseBasic = true; q.BasicUser = w.User; q.BasicPass = w.Password }})
	out = append(out, verifCred{Name: "basic-wrong-password", Kind: "basic", Why: "wrong password",
		Apply: func(q *verifReq) { q.UseBasic = true; q.BasicUser = w.User; q.BasicPass = w.Password + "x" }})
	out = append(out, verifCred{Name: "basic-unknown-user", Kind: "basic", Why: "unknown user",
		Apply: func(q *verifReq) { q.UseBasic = true; q.BasicUser = "mallory"; q.BasicPass = w.Password }})
	out = append(out, verifCred{Name: "basic-empty-password", Kind: "basic", Why: "empty password",
		Apply: func(q *verifReq) { q.UseBasic = true; q.BasicUser = w.User; q.BasicPass = "" }})
	// cookies with factor bits
	single := []string{"password", "federated", "U2F", "SymantecVIP", "IPCertificate", "TOTP",
		"Okta2FA", "BootstrapOTP", "KeymasterX509", "WebauthForCLI", "FIDO2"}
	mk := func(name string, bits int) {
		c := verifSessionClaims(w.User, bits, now.Add(-time.Minute), 16*time.Hour)
		out = append(out, w.cookieCred(name, c, true, bits, "", verifMint(c, w.CA)))
	}
	for _, s := range single {
		mk("cookie-"+s, verifBit[s])
	}
	for _, s := range single[1:] {
		mk("cookie-password+"+s, verifBit["password"]|verifBit[s])
	}
	all := 0
	for _, s := range single {
		all |= verifBit[s]
	}
	mk("cookie-allbits", all)
	mk("cookie-federated+TOTP", verifBit["federated"]|verifBit["TOTP"])
	{
		c := verifSessionClaims(w.User, 0, now.Add(-time.Minute), 16*time.Hour)
		// zero bits: well signed, proves nothing
		cr := w.cookieCred("cookie-zerobits", c, true, 0, "", verifMint(c, w.CA))
		out = append(out, cr)
	}
	good := verifSessionClaims(w.User, all, now.Add(-time.Minute), 16*time.Hour)
	bad := func(name, why string, mut func(c verifClaims), key crypto.Signer) {
		c := good.clone()
		if mut != nil {
			mut(c)
		}
		out = append(out, w.cookieCred(name, c, false, 0, why, verifMint(c, key)))
	}
	bad("cookie-expired", "expired", func(c verifClaims) {
		c["iat"] = now.Add(-17 * time.Hour).Unix()
		c["nbf"] = c["iat"]
		c["exp"] = now.Add(-time.Hour).Unix()
	}, w.CA)
	bad("cookie-expired-1s", "expired", func(c verifClaims) { c["exp"] = now.Add(-2 * time.Second).Unix() }, w.CA)
	bad("cookie-notyetvalid", "nbf in the future", func(c verifClaims) { c["nbf"] = now.Add(time.Hour).Unix() }, w.CA)
	bad("cookie-foreign-issuer", "issuer", func(c verifClaims) { c["iss"] = "https://evil.example:33443" }, w.CA)
	bad("cookie-foreign-audience", "audience", func(c verifClaims) { c["aud"] = []string{"https://evil.example:33443"} }, w.CA)
	bad("cookie-empty-audience", "audience", func(c verifClaims) { c["aud"] = []string{} }, w.CA)
	bad("cookie-foreign-key", "foreign key", nil, verifSigner("foreign_rsa2048"))
	bad("cookie-foreign-key-ec", "foreign key", nil, verifSigner("foreign_ec384"))
	for _, tt := range []string{"storage_data", "keymaster_webauth_for_cli_identity", "", "bearer", "token_endpoint"} {
		tt := tt
		bad("cookie-kind-"+tt, "wrong token kind", func(c verifClaims) { c["token_type"] = tt }, w.CA)
	}
	bad("cookie-kind-code", "authorization code as cookie", func(c verifClaims) {
		delete(c, "token_type")
		c["type"] = "token_endpoint"
		c["username"] = w.User
	}, w.CA)
	bad("cookie-kind-access", "access token as cookie", func(c verifClaims) {
		delete(c, "token_type")
		c["type"] = "bearer"
		c["username"] = w.User
	}, w.CA)
	bad("cookie-kind-idtoken", "id token as cookie", func(c verifClaims) {
		delete(c, "token_type")
		delete(c, "auth_type")
		c["aud"] = []string{"client-a"}
	}, w.CA)
	out = append(out, w.cookieCred("cookie-alg-none", good, false, 0, "alg none", verifMintNone(good)))
	pkixPEM := []byte(verifPKIXPEM(w.CA.Public()))
	sshPub := []byte(verifSSHAuthorizedKey(w.CA.Public()))
	for _, alg := range []jose.SignatureAlgorithm{jose.HS256, jose.HS384, jose.HS512} {
		out = append(out, w.cookieCred("cookie-"+string(alg)+"-pkixpem", good, false, 0, "HMAC with public key",
			verifMintHMACWithPublicKey(good, alg, pkixPEM)))
	}
	out = append(out, w.cookieCred("cookie-HS256-sshpub", good, false, 0, "HMAC with public key",
		verifMintHMACWithPublicKey(good, jose.HS256, sshPub)))
	{
		tok := verifMint(good, w.CA)
		h, p, s, _ := verifSplitJWS(tok)
		s2 := append([]byte{}, s...)
		s2[len(s2)/2] ^= 0x01
		out = append(out, w.cookieCred("cookie-sigflip", good, false, 0, "signature bit flipped", verifJoinJWS(h, p, s2)))
		p2 := append([]byte{}, p...)
		// change a digit in the payload (keeps JSON well-formed)
		for i := range p2 {
			if p2[i] >= '1' && p2[i] <= '8' {
				p2[i]++
				break
			}
		}
		out = append(out, w.cookieCred("cookie-payloadflip", good, false, 0, "payload altered", verifJoinJWS(h, p2, s)))
		out = append(out, w.cookieCred("cookie-garbage", good, false, 0, "garbage", "not.a.jwt"))
		out = append(out, w.cookieCred("cookie-empty", good, false, 0, "empty", ""))
	}
	if w.Env != nil {
		out = append(out, w.certShapes()...)
	}
	return out
}

func (w *verifCredWorld) certShapes() []verifCred {
	e := w.Env
	now := time.Now()
	pub := verifUserECKey().Public()
	var out []verifCred
	add := func(name string, c verifCred, leafCN string, parentIsRole bool, clientCA bool, ext []pkix.Extension, remote string, nb, na time.Time) {
		var parent *x509.Certificate
		var pkey crypto.Signer = w.CA
		if !clientCA && e.IsSealed() {
			// a sealed server has no CA certificate in its TLS pool: the
			// handshake itself refuses certificates issued before the restart
			return
		}
		if parentIsRole {
			parent = e.RoleCACert()
		} else if !clientCA {
			parent = e.UserCACert()
		}
		if clientCA {
			parent = verifClientCACert()
			pkey = verifSigner("clientca_rsa2048")
		}
		leaf := verifMakeLeaf(leafCN, pub, parent, pkey, nb, na, ext)
		cs := e.TLSFor(leaf)
		c.Name = name
		c.Kind = "cert"
		if cs == nil {
			// the TLS layer would refuse the handshake; the request never
			// reaches a handler, so there is nothing to probe
			return
		}
		c.Apply = func(q *verifReq) {
			q.TLS = cs
			if remote != "" {
				q.RemoteAddr = remote
			}
		}
		out = append(out, c)
	}
	hourAgo, tomorrow := now.Add(-time.Hour), now.Add(23*time.Hour)
	add("cert-keymaster-user", verifCred{Valid: true, User: w.User, Bits: verifBit["KeymasterX509"]},
		w.User, false, false, nil, "", hourAgo, tomorrow)
	add("cert-clientca-only", verifCred{Why: "signed by the operator's client CA, not by keymaster"},
		w.User, false, true, nil, "", hourAgo, tomorrow)
	ext := []pkix.Extension{verifIPExtension([]net.IPNet{mustCIDR("10.20.0.0/16"), mustCIDR("192.168.7.128/25")})}
	add("cert-ip-inside", verifCred{Valid: true, User: w.AutoUser, Bits: verifBit["IPCertificate"], IPCert: true},
		w.AutoUser, true, false, ext, "10.20.255.255:4000", hourAgo, tomorrow)
	add("cert-ip-inside-second-block", verifCred{Valid: true, User: w.AutoUser, Bits: verifBit["IPCertificate"], IPCert: true},
		w.AutoUser, true, false, ext, "192.168.7.128:4000", hourAgo, tomorrow)
	add("cert-ip-outside", verifCred{Why: "IP certificate presented from outside its netblocks", User: w.AutoUser, IPCert: true, Outside: true},
		w.AutoUser, true, false, ext, "10.21.0.0:4000", hourAgo, tomorrow)
	add("cert-ip-outside-boundary", verifCred{Why: "IP certificate presented from outside its netblocks", User: w.AutoUser, IPCert: true, Outside: true},
		w.AutoUser, true, false, ext, "192.168.7.127:4000", hourAgo, tomorrow)
	// the restriction is about the TCP peer: proxy-style headers naming an inside address change nothing, from loopback
	// (where the daemon's logging helper believes them) or from anywhere else
	for _, peer := range []string{"127.0.0.1:4000", "10.21.0.0:4000"} {
		n0 := len(out)
		add("cert-ip-outside-proxy-headers-claim-inside@"+strings.Split(peer, ":")[0], verifCred{Why: "IP certificate presented from outside its netblocks (proxy headers name an inside address)", User: w.AutoUser, IPCert: true, Outside: true},
			w.AutoUser, true, false, ext, peer, hourAgo, tomorrow)
		if len(out) > n0 {
			inner := out[n0].Apply
			out[n0].Apply = func(q *verifReq) {
				inner(q)
				h := map[string]string{}
				for k, v := range q.Header {
					h[k] = v
				}
				for _, k := range []string{"X-Forwarded-For", "X-Real-Ip", "Forwarded-For", "True-Client-Ip"} {
					h[k] = "10.20.1.1"
				}
				h["Forwarded"] = "for=10.20.1.1"
				q.Header = h
			}
		}
	}
	add("cert-ip-nonautomation-user", verifCred{Why: "IP certificate for a name that is not an automation user", User: w.User, IPCert: true},
		"notautomation", true, false, ext, "10.20.1.1:4000", hourAgo, tomorrow)
	return out
}

func (c verifCred) String() string { return fmt.Sprintf("%s(valid=%v bits=%#x)", c.Name, c.Valid, c.Bits) }
