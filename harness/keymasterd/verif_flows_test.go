package main

// Client-side flows over HTTP only (no keymasterd identifiers): login,
// certificate request, published trust anchors, certificate oracles.

import (
	"bytes"
	"crypto"
	"crypto/ecdsa"
	"crypto/ed25519"
	"crypto/elliptic"
	"crypto/rand"
	"crypto/x509"
	"encoding/json"
	"encoding/pem"
	"fmt"
	"net/http"
	"net/url"
	"reflect"
	"sort"
	"strings"
	"sync"
	"time"

	"golang.org/x/crypto/ssh"
)

// verifLogin performs the real password login and returns the session cookie.
// verifDoer is whatever executes a built request: the in-process environment or a real daemon (engine B).
type verifDoer interface {
	Do(req *http.Request) *verifResp
}

func verifLogin(e verifDoer, user, password string) (string, *verifResp) {
	q := verifReq{Method: "POST", Path: "/api/v0/login",
		Form: url.Values{"username": {user}, "password": {password}}}
	resp := e.Do(q.Build())
	if c := resp.Cookie("auth_cookie"); c != nil && resp.Code == 200 {
		return c.Value, resp
	}
	return "", resp
}

type verifTrust struct {
	SSH  []ssh.PublicKey
	X509 *x509.CertPool
	Keys []crypto.PublicKey
	N509 int
}

// verifPublishedTrust reads the trust anchors the server publishes.
func verifPublishedTrust(e *verifEnv) (*verifTrust, error) {
	t := &verifTrust{X509: x509.NewCertPool()}
	r := e.Do(verifReq{Path: "/public/sshca"}.Build())
	if r.Code != 200 {
		return nil, fmt.Errorf("/public/sshca: %d", r.Code)
	}
	rest := r.Body
	for len(bytes.TrimSpace(rest)) > 0 {
		pk, _, _, rr, err := ssh.ParseAuthorizedKey(rest)
		if err != nil {
			return nil, err
		}
		t.SSH = append(t.SSH, pk)
		if cp, ok := pk.(ssh.CryptoPublicKey); ok {
			t.Keys = append(t.Keys, cp.CryptoPublicKey())
		}
		rest = rr
	}
	r = e.Do(verifReq{Path: "/public/x509ca"}.Build())
	if r.Code != 200 {
		return nil, fmt.Errorf("/public/x509ca: %d", r.Code)
	}
	rest = r.Body
	for {
		var b *pem.Block
		b, rest = pem.Decode(rest)
		if b == nil {
			break
		}
		c, err := x509.ParseCertificate(b.Bytes)
		if err != nil {
			return nil, err
		}
		t.X509.AddCert(c)
		t.N509++
	}
	return t, nil
}

type verifUserKey struct {
	Name   string
	Pub    crypto.PublicKey
	SSH    string // authorized_keys line
	PKIX   string // PEM PUBLIC KEY
	SSHAlg string
}

var verifUserKeysOnce sync.Once
var verifUserKeys []verifUserKey

func verifAllUserKeys() []verifUserKey {
	verifUserKeysOnce.Do(func() {
		add := func(name string, pub crypto.PublicKey) {
			k := verifUserKey{Name: name, Pub: pub, PKIX: verifPKIXPEM(pub)}
			k.SSH = verifSSHAuthorizedKey(pub)
			k.SSHAlg = strings.Fields(k.SSH)[0]
			verifUserKeys = append(verifUserKeys, k)
		}
		add("rsa2048", verifSigner("user_rsa2048").Public())
		add("rsa3072", verifSigner("user_rsa3072").Public())
		add("rsa4096", verifSigner("user_rsa4096").Public())
		for _, c := range []elliptic.Curve{elliptic.P256(), elliptic.P384(), elliptic.P521()} {
			k, _ := ecdsa.GenerateKey(c, rand.Reader)
			add("ec"+c.Params().Name, &k.PublicKey)
		}
		pub, _, _ := ed25519.GenerateKey(rand.Reader)
		add("ed25519", pub)
	})
	return verifUserKeys
}

func verifCertReq(user, certType, keyData, duration string, extra map[string]string) verifReq {
	mp := map[string]string{"type": certType}
	if duration != "\x00none" {
		mp["duration"] = duration
	}
	for k, v := range extra {
		mp[k] = v
	}
	return verifReq{Method: "POST", Path: "/certgen/" + user, Multipart: mp,
		FileField: "pubkeyfile", FileData: keyData}
}

var verifStdSSHExtensions = []string{"permit-X11-forwarding", "permit-agent-forwarding",
	"permit-port-forwarding", "permit-pty", "permit-user-rc"}

// verifExpandTemplate: independent expansion of $USERNAME / ${USERNAME}
func verifExpandTemplate(s, user string) string {
	s = strings.ReplaceAll(s, "${USERNAME}", user)
	return strings.ReplaceAll(s, "$USERNAME", user)
}

// verifCheckSSHCert returns the list of defects of an issued SSH user
// certificate w.r.t. (user, submitted key, published CA, configured extensions)
func verifCheckSSHCert(c *ssh.Certificate, user string, submitted ssh.PublicKey,
	trust *verifTrust, cfgExt map[string]string, now time.Time) []string {
	var bad []string
	if c.CertType != ssh.UserCert {
		bad = append(bad, fmt.Sprintf("cert type %d is not a user certificate", c.CertType))
	}
	if len(c.ValidPrincipals) != 1 || c.ValidPrincipals[0] != user {
		bad = append(bad, fmt.Sprintf("principals %q != [%q]", c.ValidPrincipals, user))
	}
	if !bytes.Equal(c.Key.Marshal(), submitted.Marshal()) {
		bad = append(bad, "certified key differs from the submitted key")
	}
	if len(c.CriticalOptions) != 0 {
		bad = append(bad, fmt.Sprintf("unexpected critical options %v", c.CriticalOptions))
	}
	checker := &ssh.CertChecker{IsUserAuthority: func(auth ssh.PublicKey) bool {
		for _, k := range trust.SSH {
			if bytes.Equal(k.Marshal(), auth.Marshal()) {
				return true
			}
		}
		return false
	}}
	if !checker.IsUserAuthority(c.SignatureKey) {
		bad = append(bad, "signing key is not among the published SSH CA keys")
	} else {
		// signature check independent of the validity window: the signed
		// bytes are the certificate without its signature field
		c2 := *c
		c2.Signature = nil
		out := c2.Marshal()
		if err := c.SignatureKey.Verify(out[:len(out)-4], c.Signature); err != nil {
			bad = append(bad, "signature does not verify under the published CA: "+err.Error())
		}
	}
	want := map[string]string{}
	for _, e := range verifStdSSHExtensions {
		want[e] = ""
	}
	for k, v := range cfgExt {
		if ek := verifExpandTemplate(k, user); ek != "" {
			want[ek] = verifExpandTemplate(v, user)
		}
	}
	if !reflect.DeepEqual(want, c.Permissions.Extensions) {
		bad = append(bad, fmt.Sprintf("extensions %v != expected %v", sortedMap(c.Permissions.Extensions), sortedMap(want)))
	}
	return bad
}

func sortedMap(m map[string]string) []string {
	var o []string
	for k, v := range m {
		o = append(o, k+"="+v)
	}
	sort.Strings(o)
	return o
}

func verifPubEqual(a, b crypto.PublicKey) bool {
	da, err1 := x509.MarshalPKIXPublicKey(a)
	db, err2 := x509.MarshalPKIXPublicKey(b)
	return err1 == nil && err2 == nil && bytes.Equal(da, db)
}

func verifCheckX509UserCert(c *x509.Certificate, user string, submitted crypto.PublicKey,
	trust *verifTrust) []string {
	var bad []string
	if c.Subject.CommonName != user {
		bad = append(bad, fmt.Sprintf("CN %q != %q", c.Subject.CommonName, user))
	}
	if !verifPubEqual(c.PublicKey, submitted) {
		bad = append(bad, "certified key differs from the submitted key")
	}
	if c.IsCA {
		bad = append(bad, "certificate is a CA")
	}
	if c.KeyUsage&x509.KeyUsageCertSign != 0 {
		bad = append(bad, "certificate may sign certificates")
	}
	client := false
	for _, u := range c.ExtKeyUsage {
		if u == x509.ExtKeyUsageClientAuth {
			client = true
		}
		if u == x509.ExtKeyUsageServerAuth || u == x509.ExtKeyUsageAny {
			bad = append(bad, "unexpected extended key usage")
		}
	}
	if !client {
		bad = append(bad, "client-authentication usage missing")
	}
	// verify at a time inside the validity window (validity is C03's matter)
	at := c.NotBefore.Add(time.Second)
	if c.NotAfter.Before(at) {
		at = c.NotBefore
	}
	if _, err := c.Verify(x509.VerifyOptions{Roots: trust.X509, CurrentTime: at,
		KeyUsages: []x509.ExtKeyUsage{x509.ExtKeyUsageClientAuth}}); err != nil {
		bad = append(bad, "does not verify under the published X.509 CA: "+err.Error())
	}
	return bad
}

// ---- enrolment flows (HTTP only) -------------------------------------------

func verifCk(cookie string) map[string]string { return map[string]string{"auth_cookie": cookie} }

// verifEnrollTOTP runs the real generate + validate flow and returns the secret.
func verifEnrollTOTP(e verifDoer, cookie string) (string, error) {
	r := e.Do(verifReq{Method: "POST", Path: "/totp/GenerateNew/", Cookies: verifCk(cookie)}.Build())
	if r.Code != 200 {
		return "", fmt.Errorf("GenerateNew: %d %s", r.Code, firstLines(string(r.Body), 2))
	}
	var out struct{ TOTPSecret string }
	if err := jsonUnmarshal(r.Body, &out); err != nil || out.TOTPSecret == "" {
		return "", fmt.Errorf("GenerateNew: no secret in %q", firstLines(string(r.Body), 2))
	}
	code := verifTOTPCode(out.TOTPSecret, time.Now())
	r = e.Do(verifReq{Method: "POST", Path: "/totp/ValidateNew/", Form: url.Values{"OTP": {code}}, Cookies: verifCk(cookie)}.Build())
	if r.Code != 302 {
		return "", fmt.Errorf("ValidateNew: %d %s", r.Code, firstLines(string(r.Body), 2))
	}
	return out.TOTPSecret, nil
}

// verifEnrollU2F runs the real register request/response flow with a soft token.
func verifEnrollU2F(e verifDoer, cookie, user string, tok *verifU2FToken) error {
	r := e.Do(verifReq{Method: "GET", Path: "/u2f/RegisterRequest/" + user, Cookies: verifCk(cookie)}.Build())
	if r.Code != 200 {
		return fmt.Errorf("RegisterRequest: %d %s", r.Code, firstLines(string(r.Body), 2))
	}
	var req struct {
		AppID            string `json:"appId"`
		RegisterRequests []struct {
			Challenge string `json:"challenge"`
		} `json:"registerRequests"`
	}
	if err := jsonUnmarshal(r.Body, &req); err != nil || len(req.RegisterRequests) == 0 {
		return fmt.Errorf("RegisterRequest: bad body %q", firstLines(string(r.Body), 2))
	}
	body, _ := jsonMarshal(tok.RegisterResponse(req.AppID, req.RegisterRequests[0].Challenge))
	r = e.Do(verifReq{Method: "POST", Path: "/u2f/RegisterResponse/" + user, RawBody: body, RawCT: "application/json", Cookies: verifCk(cookie)}.Build())
	if r.Code != 200 {
		return fmt.Errorf("RegisterResponse: %d %s", r.Code, firstLines(string(r.Body), 2))
	}
	return nil
}

type verifU2FSignReq struct {
	AppID          string `json:"appId"`
	Challenge      string `json:"challenge"`
	RegisteredKeys []struct {
		KeyHandle string `json:"keyHandle"`
	} `json:"registeredKeys"`
}

// verifU2FBegin asks for a sign challenge for the session's user.
func verifU2FBegin(e verifDoer, cookie string) (*verifU2FSignReq, *verifResp) {
	r := e.Do(verifReq{Method: "GET", Path: "/u2f/SignRequest", Cookies: verifCk(cookie)}.Build())
	if r.Code != 200 {
		return nil, r
	}
	var req verifU2FSignReq
	if err := jsonUnmarshal(r.Body, &req); err != nil {
		return nil, r
	}
	return &req, r
}

func verifU2FFinish(e verifDoer, cookie string, resp map[string]string) *verifResp {
	body, _ := jsonMarshal(resp)
	return e.Do(verifReq{Method: "POST", Path: "/u2f/SignResponse", RawBody: body, RawCT: "application/json", Cookies: verifCk(cookie)}.Build())
}

func verifAdminAddUser(e verifDoer, adminCookie, user string) *verifResp {
	return e.Do(verifReq{Method: "POST", Path: "/admin/addUser", Form: url.Values{"username": {user}}, Cookies: verifCk(adminCookie)}.Build())
}

// verifAdminBootstrapOTP returns the one-time value an administrator obtains for user.
func verifAdminBootstrapOTP(e verifDoer, adminCookie, user, duration string) (string, *verifResp) {
	f := url.Values{"username": {user}}
	if duration != "" {
		f.Set("duration", duration)
	}
	r := e.Do(verifReq{Method: "POST", Path: "/admin/newBoostrapOTP", Form: f, Cookies: verifCk(adminCookie)}.Build())
	if r.Code != 200 {
		return "", r
	}
	var out struct{ BootstrapOTPValue string }
	jsonUnmarshal(r.Body, &out)
	return out.BootstrapOTPValue, r
}

// verifCookieInfo decodes a session cookie with the published keys.
func verifCookieInfo(tok string, keys []crypto.PublicKey) (sub string, bits int, ok bool) {
	c, ok := verifVerifyJWS(tok, keys)
	if !ok {
		return "", 0, false
	}
	return verifClaimStr(c, "sub"), int(verifClaimInt(c, "auth_type")), true
}

func jsonUnmarshal(b []byte, v interface{}) error { return json.Unmarshal(b, v) }
func jsonMarshal(v interface{}) ([]byte, error)    { return json.Marshal(v) }
