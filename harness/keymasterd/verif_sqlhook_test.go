package main

// Interposing database/sql driver "verifsqlite": wraps go-sqlite3 with the
// basic driver interfaces only, so that every storage operation of the daemon
// (prepare / exec / query / begin / commit / rollback) is seen with its text and
// can be counted, delayed, failed or gated by the monitors.  No source hook.

import (
	"database/sql"
	"database/sql/driver"
	"errors"
	"fmt"
	"strings"
	"sync"
	"time"

	sqlite3 "github.com/mattn/go-sqlite3"
)

var errVerifInjected = errors.New("verif: injected storage fault")

type verifSQLOp struct {
	DB   string // label given in the DSN (primary / cache)
	Kind string // open | prepare | exec | query | begin | commit | rollback
	Text string
	Seq  int
}

func (o verifSQLOp) IsWrite() bool {
	t := strings.ToLower(strings.TrimSpace(o.Text))
	return o.Kind == "exec" && (strings.HasPrefix(t, "insert") || strings.HasPrefix(t, "delete") || strings.HasPrefix(t, "update")) ||
		(o.Kind == "query" && strings.HasPrefix(t, "delete"))
}

// verifSQLHook decides what happens to an operation: nil = proceed.
type verifSQLHook func(op verifSQLOp) error

type verifSQLControl struct {
	mu    sync.Mutex
	seq   map[string]int
	log   []verifSQLOp
	hooks map[string]verifSQLHook
	keep  bool
	rowF  map[string]func(q string, n int) error
}

// SetRowFault installs (nil: removes) the function consulted before every row fetch on the labelled database.
func (c *verifSQLControl) SetRowFault(db string, f func(q string, n int) error) {
	c.mu.Lock()
	if c.rowF == nil {
		c.rowF = map[string]func(string, int) error{}
	}
	if f == nil {
		delete(c.rowF, db)
	} else {
		c.rowF[db] = f
	}
	c.mu.Unlock()
}

func (c *verifSQLControl) rowFaultFor(db string) func(string, int) error {
	c.mu.Lock()
	defer c.mu.Unlock()
	return c.rowF[db]
}

var verifSQL = &verifSQLControl{seq: map[string]int{}, hooks: map[string]verifSQLHook{}}

func (c *verifSQLControl) SetHook(db string, h verifSQLHook) {
	c.mu.Lock()
	if h == nil {
		delete(c.hooks, db)
	} else {
		c.hooks[db] = h
	}
	c.mu.Unlock()
}

func (c *verifSQLControl) Record(on bool) {
	c.mu.Lock()
	c.keep = on
	c.log = nil
	c.mu.Unlock()
}

func (c *verifSQLControl) Log() []verifSQLOp {
	c.mu.Lock()
	defer c.mu.Unlock()
	return append([]verifSQLOp{}, c.log...)
}

func (c *verifSQLControl) ResetSeq(db string) {
	c.mu.Lock()
	c.seq[db] = 0
	c.mu.Unlock()
}

func (c *verifSQLControl) op(db, kind, text string) error {
	c.mu.Lock()
	c.seq[db]++
	o := verifSQLOp{DB: db, Kind: kind, Text: text, Seq: c.seq[db]}
	if c.keep {
		c.log = append(c.log, o)
	}
	h := c.hooks[db]
	c.mu.Unlock()
	if h != nil {
		return h(o)
	}
	return nil
}

func (c *verifSQLControl) notify(db, kind, text string) {
	c.mu.Lock()
	h := c.hooks[db]
	c.mu.Unlock()
	if h != nil {
		h(verifSQLOp{DB: db, Kind: kind, Text: text})
	}
}

type verifSQLDriver struct{ inner sqlite3.SQLiteDriver }

func (d *verifSQLDriver) Open(dsn string) (driver.Conn, error) {
	parts := strings.SplitN(dsn, "|", 2)
	if len(parts) != 2 {
		return nil, fmt.Errorf("verifsqlite: dsn must be label|path")
	}
	if err := verifSQL.op(parts[0], "open", parts[1]); err != nil {
		return nil, err
	}
	c, err := d.inner.Open(parts[1])
	if err != nil {
		return nil, err
	}
	return &verifSQLConn{db: parts[0], c: c}, nil
}

type verifSQLConn struct {
	db string
	c  driver.Conn
}

func (c *verifSQLConn) Prepare(q string) (driver.Stmt, error) {
	if err := verifSQL.op(c.db, "prepare", q); err != nil {
		return nil, err
	}
	s, err := c.c.Prepare(q)
	if err != nil {
		return nil, err
	}
	return &verifSQLStmt{db: c.db, q: q, s: s}, nil
}
func (c *verifSQLConn) Close() error { return c.c.Close() }
func (c *verifSQLConn) Begin() (driver.Tx, error) {
	if err := verifSQL.op(c.db, "begin", ""); err != nil {
		return nil, err
	}
	tx, err := c.c.Begin() //lint:ignore SA1019 basic interface on purpose
	if err != nil {
		return nil, err
	}
	return &verifSQLTx{db: c.db, tx: tx}, nil
}

type verifSQLStmt struct {
	db string
	q  string
	s  driver.Stmt
}

func (s *verifSQLStmt) Close() error  { return s.s.Close() }
func (s *verifSQLStmt) NumInput() int { return s.s.NumInput() }
func (s *verifSQLStmt) Exec(args []driver.Value) (driver.Result, error) {
	if err := verifSQL.op(s.db, "exec", s.q); err != nil {
		return nil, err
	}
	return s.s.Exec(args) //lint:ignore SA1019 basic interface on purpose
}
func (s *verifSQLStmt) Query(args []driver.Value) (driver.Rows, error) {
	if err := verifSQL.op(s.db, "query", s.q); err != nil {
		return nil, err
	}
	rows, err := s.s.Query(args) //lint:ignore SA1019 basic interface on purpose
	if err != nil {
		return nil, err
	}
	// second interposition point: the statement has executed, its result has not
	// yet been handed to the caller
	if err := verifSQL.op(s.db, "query-done", s.q); err != nil {
		rows.Close()
		return nil, err
	}
	return &verifSQLRows{db: s.db, q: s.q, r: rows}, nil
}

// verifSQLRows adds a third interposition point: "rows-closed", after the caller has read the rows it wanted and the
// statement has been reset (its locks released) - for a single-row read this is the moment the data is in the caller's
// hands.  (go-sqlite3 steps the statement lazily, in Next: at "query-done" no row has been read yet.)  It is a
// notification: not numbered, not logged, its result ignored.
type verifSQLRows struct {
	db, q string
	r     driver.Rows
	once  sync.Once
	n     int
}

func (r *verifSQLRows) Columns() []string { return r.r.Columns() }

// Next is the fourth interposition point: a row fault set with SetRowFault sees (statement, ordinal of the row about
// to be fetched) and can make the fetch fail - the connection dropping while a result set is being read.  Not numbered,
// not logged: the sequence numbers of the other operations do not depend on how many rows were read.
func (r *verifSQLRows) Next(dest []driver.Value) error {
	r.n++
	if f := verifSQL.rowFaultFor(r.db); f != nil {
		if err := f(r.q, r.n); err != nil {
			return err
		}
	}
	return r.r.Next(dest)
}
func (r *verifSQLRows) Close() error {
	err := r.r.Close()
	r.once.Do(func() { verifSQL.notify(r.db, "rows-closed", r.q) })
	return err
}

type verifSQLTx struct {
	db string
	tx driver.Tx
}

func (t *verifSQLTx) Commit() error {
	if err := verifSQL.op(t.db, "commit", ""); err != nil {
		t.tx.Rollback()
		return err
	}
	return t.tx.Commit()
}
func (t *verifSQLTx) Rollback() error {
	verifSQL.op(t.db, "rollback", "")
	return t.tx.Rollback()
}

var verifSQLRegister sync.Once

// verifOpenHooked opens path through the interposing driver under a label.
func verifOpenHooked(label, path string) (*sql.DB, error) {
	verifSQLRegister.Do(func() { sql.Register("verifsqlite", &verifSQLDriver{}) })
	db, err := sql.Open("verifsqlite", label+"|"+path)
	if err != nil {
		return nil, err
	}
	db.SetMaxIdleConns(0)
	return db, nil
}

// ---- an outage gate ----------------------------------------------------------

// verifOutage makes every read of the labelled database hang while closed and
// records (and fails) every write attempted meanwhile.
type verifOutage struct {
	mu     sync.Mutex
	closed bool
	wait   chan struct{}
	Writes []verifSQLOp
	Reads  int
	// FailFast: statements fail immediately at prepare/begin (connection refused, closed handle) instead of hanging
	FailFast bool
	// QueryError: the server still accepts statements (prepare succeeds) but every read fails at once when it is
	// executed (a server that is restarting, a dropped connection noticed at the first round trip)
	QueryError bool
}

func newVerifOutage() *verifOutage { return &verifOutage{wait: make(chan struct{})} }

func (g *verifOutage) Hook(op verifSQLOp) error {
	if op.Kind == "query-done" || op.Kind == "rows-closed" {
		return nil
	}
	if op.Kind == "open" {
		// the connection object is handed out; the outage strikes at its first use,
		// where reads (hang) and writes (recorded, failed) can be told apart
		return nil
	}
	g.mu.Lock()
	closed, ch := g.closed, g.wait
	if closed {
		if op.IsWrite() || op.Kind == "begin" || op.Kind == "commit" {
			g.Writes = append(g.Writes, op)
			g.mu.Unlock()
			return errVerifInjected
		}
		g.Reads++
		if g.QueryError {
			g.mu.Unlock()
			if op.Kind == "prepare" {
				return nil
			}
			return errVerifInjected
		}
		if g.FailFast {
			// the other face of an outage: the server refuses at once (connection refused / closed handle) instead of
			// not answering
			g.mu.Unlock()
			return errVerifInjected
		}
	}
	g.mu.Unlock()
	if closed {
		select {
		case <-ch:
		case <-time.After(30 * time.Second):
		}
		return errVerifInjected
	}
	return nil
}

func (g *verifOutage) Close() {
	g.mu.Lock()
	g.closed = true
	g.wait = make(chan struct{})
	g.Writes = nil
	g.Reads = 0
	g.mu.Unlock()
}

func (g *verifOutage) Open() {
	g.mu.Lock()
	if g.closed {
		g.closed = false
		close(g.wait)
	}
	g.mu.Unlock()
}

func (g *verifOutage) WriteAttempts() []verifSQLOp {
	g.mu.Lock()
	defer g.mu.Unlock()
	return append([]verifSQLOp{}, g.Writes...)
}

// verifStmtClass: a short class name for a statement (verb + first table-looking word).
func verifStmtClass(q string) string {
	f := strings.Fields(strings.ToLower(q))
	if len(f) == 0 {
		return "empty"
	}
	for i, w := range f {
		if (w == "from" || w == "into" || w == "update") && i+1 < len(f) {
			return f[0] + ":" + strings.Trim(f[i+1], "(),;")
		}
	}
	return f[0]
}
