package main

// C14 - password and one-time-code guessing is throttled.
//
// Password limiter: conservation over a counting password backend,
//   attempts = backend_calls + answered-429 + rejected-before-the-limiter,
//   backend_calls <= burst + rate * (t_last_after - t_first_before) + 1,
//   a 429 never has a backend call attributed (sequential attempts).
// Bounds use harness-bracketed time only.
// TOTP limiter: a correct code sent < 2 s after a wrong guess is not honoured,
// after >= 2 s it is; 5 evaluated failures lock the user out; the lock-out
// after the 10th failure is not shorter than after the 5th.

import (
	"fmt"
	"net/url"
	"strings"
	"sync"
	"sync/atomic"
	"testing"
	"time"
)

type c14Backend struct {
	calls  int64
	failed int64
}

// The backend answers with an error (directory unavailable) for every fifth user name: a lookup that fails is still a
// lookup, and the limiter's bound is on lookups.
func (b *c14Backend) fn() verifPWFunc {
	return func(u string, p []byte) (bool, error) {
		atomic.AddInt64(&b.calls, 1)
		var n int
		if _, err := fmt.Sscanf(u, "u%d", &n); err == nil && n%5 == 3 {
			atomic.AddInt64(&b.failed, 1)
			return false, fmt.Errorf("directory unavailable")
		}
		return string(p) == "pw-"+u, nil
	}
}

type c14Attempt struct {
	Entry  string `json:"entry"`
	Status int    `json:"status"`
	Calls  int64  `json:"backend_calls_attributed"`
}

func c14PasswordLimiter(t *testing.T, rep *verifReport, cfgBurst, cfgRate int, effBurst, effRate int) {
	label := fmt.Sprintf("burst=%d,rate=%d", cfgBurst, cfgRate)
	env, err := verifNewEnv(verifStateOpts{Name: "c14-" + label, AllowedCerts: []string{"password"}, AllowedWebUI: []string{"password"},
		Burst: cfgBurst, Rate: cfgRate, Users: map[string]string{"x": "y"}})
	if err != nil {
		t.Fatal(err)
	}
	be := &c14Backend{}
	env.SetPasswordChecker(be.fn())
	entries := []struct {
		name string
		mk   func(i int, good bool) verifReq
	}{
		{"login-form", func(i int, good bool) verifReq {
			u := fmt.Sprintf("u%d", i)
			pw := "pw-" + u
			if !good {
				pw = "guess"
			}
			return verifReq{Method: "POST", Path: "/api/v0/login", Form: url.Values{"username": {u}, "password": {pw}}}
		}},
		{"login-basic", func(i int, good bool) verifReq {
			u := fmt.Sprintf("u%d", i)
			return verifReq{Method: "POST", Path: "/api/v0/login", UseBasic: true, BasicUser: u, BasicPass: "guess"}
		}},
	}
	// every registered route takes part as a basic-auth entry point; whether it
	// really consults the password backend is measured, not assumed
	for _, rt := range env.Routes {
		p := rt.Pattern
		if len(p) > 7 && p[:7] == "/static" {
			continue
		}
		path := p
		if p == "/certgen/" {
			path = p + "u1"
		}
		pp := path
		entries = append(entries, struct {
			name string
			mk   func(i int, good bool) verifReq
		}{"basic@" + p, func(i int, good bool) verifReq {
			u := fmt.Sprintf("u%d", i)
			return verifReq{Method: "POST", Path: pp, UseBasic: true, BasicUser: u, BasicPass: "guess", Form: url.Values{"OTP": {"1"}}}
		}})
	}
	var attempts, n429, nBackend, nBefore int64
	tFirst := time.Now()
	// ---- phase 1: sequential burst through every entry point (attribution possible)
	nSeq := 3*effBurst + len(entries)
	pwEntry := map[string]bool{}
	for i := 0; i < nSeq; i++ {
		e := entries[i%len(entries)]
		before := atomic.LoadInt64(&be.calls)
		resp := env.Do(e.mk(i, i%7 == 0).Build())
		delta := atomic.LoadInt64(&be.calls) - before
		attempts++
		at := c14Attempt{e.name, resp.Code, delta}
		if delta > 0 {
			pwEntry[e.name] = true
		}
		switch {
		case resp.Code == 429:
			n429++
			if delta != 0 {
				rep.Violate("C14/password/429-with-backend-call/"+e.name, "an attempt answered 429 still reached the password backend", at)
			}
		case delta > 0:
			nBackend += delta
			if delta > 1 {
				rep.Violate("C14/password/multiple-backend-calls/"+e.name, "one attempt caused several backend lookups", at)
			}
		default:
			nBefore++ // not a password entry point for this request (or refused before the limiter)
		}
		rep.Eval(fmt.Sprintf("pw|%s|seq|%s|%d|calls=%d", label, e.name, resp.Code, delta))
	}
	// ---- phase 2: 64-way concurrent through the entry points that do consult the backend
	var live []int
	for i, e := range entries {
		if pwEntry[e.name] {
			live = append(live, i)
		}
	}
	rep.Extra["password_entry_points_"+label] = len(live)
	nConc := 400
	if verifThorough() {
		nConc = 20000
	}
	var wg sync.WaitGroup
	callsBefore := atomic.LoadInt64(&be.calls)
	var c429, cOther int64
	sem := make(chan struct{}, 64)
	for i := 0; i < nConc; i++ {
		wg.Add(1)
		sem <- struct{}{}
		go func(i int) {
			defer wg.Done()
			defer func() { <-sem }()
			e := entries[live[i%len(live)]]
			resp := env.Do(e.mk(100000+i, false).Build())
			if resp.Code == 429 {
				atomic.AddInt64(&c429, 1)
			} else {
				atomic.AddInt64(&cOther, 1)
			}
		}(i)
	}
	wg.Wait()
	tLast := time.Now()
	concCalls := atomic.LoadInt64(&be.calls) - callsBefore
	attempts += int64(nConc)
	n429 += c429
	nBackend += concCalls
	rep.Eval(fmt.Sprintf("pw|%s|concurrent|429=%v|calls=%v", label, c429 > 0, concCalls > 0))
	// conservation in the concurrent phase: every non-429 answer of a live entry point is one backend call
	if concCalls != cOther {
		rep.Violate("C14/password/conservation/"+label, fmt.Sprintf("concurrent phase: %d attempts = %d answered 429 + %d others, but %d backend calls", nConc, c429, cOther, concCalls),
			map[string]interface{}{"attempts": nConc, "429": c429, "others": cOther, "backend_calls": concCalls})
	}
	// ---- phase 3: sustained - a steady stream for a good two seconds, so that the refill rate (not only the burst)
	// decides how many guesses get through
	if len(live) > 0 {
		callsBefore3 := atomic.LoadInt64(&be.calls)
		var s429 int64
		until := time.Now().Add(2200 * time.Millisecond)
		for i := 0; time.Now().Before(until); i++ {
			e := entries[live[i%len(live)]]
			if resp := env.Do(e.mk(500000+i, false).Build()); resp.Code == 429 {
				s429++
			}
			attempts++
			time.Sleep(4 * time.Millisecond)
		}
		tLast = time.Now()
		sustained := atomic.LoadInt64(&be.calls) - callsBefore3
		n429 += s429
		nBackend += sustained
		rep.Eval(fmt.Sprintf("pw|%s|sustained|429=%v|calls=%v", label, s429 > 0, sustained > 0))
		rep.Count("pw_sustained_backend_calls", int(sustained))
	}
	elapsed := tLast.Sub(tFirst).Seconds()
	bound := float64(effBurst) + float64(effRate)*elapsed + 1
	total := atomic.LoadInt64(&be.calls)
	sum := map[string]interface{}{"config": label, "effective_burst": effBurst, "effective_rate": effRate, "attempts": attempts,
		"backend_calls": total, "answered_429": n429, "not_password_or_before_limiter": nBefore, "elapsed_s": elapsed, "bound": bound}
	rep.Sample("password-limiter:"+label, 1, sum)
	rep.Count("pw_attempts", int(attempts))
	rep.Count("pw_backend_calls", int(total))
	rep.Count("pw_429", int(n429))
	rep.Count("pw_backend_errors", int(atomic.LoadInt64(&be.failed)))
	if float64(total) > bound {
		rep.Violate("C14/password/bound-exceeded/"+label, fmt.Sprintf("%d backend calls in %.2fs exceed burst %d + rate %d/s", total, elapsed, effBurst, effRate), sum)
	}
	if attempts != total+n429+nBefore {
		rep.Violate("C14/password/accounting/"+label, "attempts != backend calls + 429 + others", sum)
	}
	if n429 == 0 {
		rep.Inconc("limiter %s never answered 429 (%d attempts)", label, attempts)
	}
}

func TestVerifC14(t *testing.T) {
	rep := newVerifReport("C14", "password limiter: four configurations (floors, below-floor values raised to 10 and 1/s, larger, rate line omitted = default 10/s) x sequential bursts through every registered route as basic-auth entry point + login form/basic, then 64-way concurrent attempts, then a steady stream for 2.2 s; conservation and burst+rate bound with harness-bracketed time over a counting backend that fails (directory error) for a fifth of the user names. TOTP limiter: several users in parallel, wrong guess then correct code inside / outside the 2-second window, a second guess sent while the first is held inside its evaluation (at its profile save, via the interposing SQL driver), 5 and 10 evaluated failures with lock-out observation (limiter state aged instead of waiting an hour); class = (limiter, configuration/entry point or step, outcome)")
	defer rep.Finish()
	var wg sync.WaitGroup
	wg.Add(1)
	go func() {
		defer wg.Done()
		c14TOTP(t, rep)
	}()
	c14PasswordLimiter(t, rep, 10, 1, 10, 1)
	c14PasswordLimiter(t, rep, 3, 0, 10, 1)    // rate 0 / burst 3 are below the floors: raised to 10 and 1/s
	c14PasswordLimiter(t, rep, 12, -1, 12, 10) // rate line left out of the file: the documented default, 10/s
	c14PasswordLimiter(t, rep, 50, 20, 50, 20)
	wg.Wait()
	rep.Floor("pw_429", 100)
	rep.Floor("pw_backend_calls", 30)
	rep.Floor("pw_backend_errors", 5)
	rep.Floor("totp_spacing_checked", 3)
	rep.Floor("totp_lockout_checked", 1)
	rep.Floor("totp_outage_lockout_checked", 1)
	rep.Floor("totp_slow_guessing_checked", 1)
	rep.Floor("totp_overlap_rounds_decided", 2) // judged, or found impossible because the tree serialises the two guesses
	rep.Floor("totp_relogin_checked", 1)
	rep.Floor("totp_simultaneous_rounds", 25)
}

func c14TOTP(t *testing.T, rep *verifReport) {
	env, err := verifNewEnv(verifStateOpts{Name: "c14-totp", AllowedCerts: []string{"TOTP"}, AllowedWebUI: []string{"password"}, EnableTOTP: true,
		Users: map[string]string{"x": "y"}})
	if err != nil {
		rep.Inconc("totp env: %v", err)
		return
	}
	env.SetPasswordChecker(verifPWFunc(func(u string, p []byte) (bool, error) { return string(p) == "pw-"+u, nil }))
	trust, _ := verifPublishedTrust(env)
	type user struct {
		name, ck, secret string
	}
	mk := func(name string) *user {
		ck, _ := verifLogin(env, name, "pw-"+name)
		secret, err := verifEnrollTOTP(env, ck)
		if err != nil {
			rep.Inconc("enrol %s: %v", name, err)
			return nil
		}
		return &user{name, ck, secret}
	}
	// try returns (honoured, bracket start, bracket end)
	try := func(u *user, code string) (bool, time.Time, time.Time, int) {
		t0 := time.Now()
		r := env.Do(verifReq{Method: "POST", Path: "/api/v0/TOTPAuth", Form: url.Values{"OTP": {code}}, Cookies: verifCk(u.ck)}.Build())
		t1 := time.Now()
		honoured := false
		if c := r.Cookie("auth_cookie"); c != nil {
			if _, bits, ok := verifCookieInfo(c.Value, trust.Keys); ok && bits&verifBit["TOTP"] != 0 {
				honoured = true
			}
		}
		return honoured, t0, t1, r.Code
	}
	wrong := func(u *user) string {
		good := verifTOTPCode(u.secret, time.Now())
		for _, c := range []string{"000000", "000001", "123456"} {
			if c != good && c != verifTOTPCode(u.secret, time.Now().Add(-30*time.Second)) && c != verifTOTPCode(u.secret, time.Now().Add(30*time.Second)) {
				return c
			}
		}
		return "999999"
	}
	var wg sync.WaitGroup
	nSpacing := 4
	if verifThorough() {
		nSpacing = 16
	}
	for i := 0; i < nSpacing; i++ {
		wg.Add(1)
		go func(i int) {
			defer wg.Done()
			u := mk(fmt.Sprintf("sp%d", i))
			if u == nil {
				return
			}
			time.Sleep(2100 * time.Millisecond) // enrolment validated a code; start from a quiet limiter
			_, w0, _, _ := try(u, wrong(u))
			h, _, g1, code := try(u, verifTOTPCode(u.secret, time.Now()))
			within := g1.Sub(w0) < 2*time.Second
			rep.Eval(fmt.Sprintf("totp|spacing|inside-window=%v|honoured=%v", within, h))
			if within {
				rep.Count("totp_spacing_checked", 1)
				if h {
					rep.Violate("C14/totp/evaluated-inside-2s-window", "a correct code sent less than 2 s after a wrong guess was honoured (the guess rate is not limited)",
						map[string]interface{}{"user": u.name, "gap_ms": g1.Sub(w0).Milliseconds(), "status": code})
				}
			} else {
				rep.Count("totp_spacing_inconclusive_samples", 1)
			}
			// positive control: the limiter lets a correct code through again once its window is over.  The statement
			// bounds the rate from above only - a tree that spaces evaluations further apart is within it - so the
			// correct code is offered after 2.1 s and, if refused, again after longer pauses; a user whose correct code
			// is still refused after ~20 s of silence following ONE wrong guess cannot log in at all: reported as such
			// (not as a guessing-rate violation) and the negative verdicts above count for nothing.
			h2, code2, waited := false, 0, time.Duration(0)
			for _, pause := range []time.Duration{2100 * time.Millisecond, 3100 * time.Millisecond, 5100 * time.Millisecond, 9100 * time.Millisecond} {
				time.Sleep(pause)
				waited += pause
				if h2, _, _, code2 = try(u, verifTOTPCode(u.secret, time.Now())); h2 {
					break
				}
			}
			rep.Eval(fmt.Sprintf("totp|after-window|honoured=%v|first-try=%v", h2, waited < 3*time.Second))
			if !h2 {
				rep.Inconc("TOTP positive control failed: after one wrong guess the correct code of %s was refused at 2.1 s, 5.2 s, 10.3 s and 19.4 s (last status %d)", u.name, code2)
			} else {
				rep.Count("totp_honoured_after_window", 1)
				if waited > 3*time.Second {
					rep.Obs("the correct code was honoured only %.1f s after the wrong guess (spacing longer than 2 s: stricter than the statement requires)", waited.Seconds())
				}
			}
		}(i)
	}
	// many submissions of the currently valid code for one user at the same moment: at most one may be evaluated (an
	// evaluated one answers 200, or 5xx when it loses the race to store the used code; a throttled one answers 401)
	wg.Add(1)
	go func() {
		defer wg.Done()
		// (the window between a non-atomic check and its store opens only when the limiter's lock is contended at the
		// moment a waiter wakes: measured on a seeded change, about one round in four shows it)
		rounds, n := 30, 48
		if verifThorough() {
			rounds = 200
		}
		for r := 0; r < rounds; r++ {
			u := mk(fmt.Sprintf("sim%d", r))
			if u == nil {
				return
			}
			env.ShiftTOTPLimiter(u.name, 3*time.Second)
			code := verifTOTPCode(u.secret, time.Now())
			var evaluated, honoured int32
			var wg2 sync.WaitGroup
			start := make(chan struct{})
			for k := 0; k < n; k++ {
				wg2.Add(1)
				go func() {
					defer wg2.Done()
					req := verifReq{Method: "POST", Path: "/api/v0/TOTPAuth", Form: url.Values{"OTP": {code}}, Cookies: verifCk(u.ck)}.Build()
					<-start
					resp := env.Do(req)
					if resp.Code == 200 || resp.Code >= 500 {
						atomic.AddInt32(&evaluated, 1)
					}
					if resp.Code == 200 {
						atomic.AddInt32(&honoured, 1)
					}
				}()
			}
			stop := make(chan struct{})
			env.ContendTOTPLimiter(8, stop) // other users' submissions competing for the limiter's lock
			held := make(chan struct{})
			go func() { // the submissions pile up at the limiter and pass it back to back
				env.HoldTOTPLimiter(100*time.Millisecond, held)
			}()
			<-held
			close(start)
			wg2.Wait()
			close(stop)
			rep.Eval(fmt.Sprintf("totp|simultaneous|evaluated=%d|honoured=%d", min32(evaluated, 3), min32(honoured, 2)))
			rep.Count("totp_simultaneous_rounds", 1)
			if evaluated > 1 {
				rep.Violate("C14/totp/simultaneous-guesses-all-evaluated", fmt.Sprintf("%d submissions for one user sent at the same moment: %d were evaluated (at most one per two seconds)", n, evaluated),
					map[string]interface{}{"user": u.name, "submissions": n, "evaluated": evaluated, "honoured": honoured})
			}
		}
	}()
	// the spacing and the failure count belong to the user, not to the session: logging out and in again between a wrong
	// guess and the next one changes nothing
	wg.Add(1)
	go func() {
		defer wg.Done()
		u := mk("relog")
		if u == nil {
			return
		}
		relogin := func() {
			env.Do(verifReq{Method: "GET", Path: "/api/v0/logout", Cookies: verifCk(u.ck)}.Build())
			if ck, _ := verifLogin(env, u.name, "pw-"+u.name); ck != "" {
				u.ck = ck
			}
		}
		time.Sleep(2100 * time.Millisecond)
		_, w0, _, _ := try(u, wrong(u))
		relogin()
		h, _, g1, code := try(u, verifTOTPCode(u.secret, time.Now()))
		within := g1.Sub(w0) < 2*time.Second
		rep.Eval(fmt.Sprintf("totp|spacing-across-relogin|inside-window=%v|honoured=%v", within, h))
		if within {
			rep.Count("totp_relogin_checked", 1)
			if h {
				rep.Violate("C14/totp/spacing-reset-by-relogin", "a correct code sent less than 2 s after a wrong guess was honoured because the user logged out and in again in between",
					map[string]interface{}{"user": u.name, "gap_ms": g1.Sub(w0).Milliseconds(), "status": code})
			}
		}
		// five evaluated failures, each followed by logout + login: the lock-out must still arm
		for i := 0; i < 5; i++ {
			env.ShiftTOTPLimiter(u.name, 2100*time.Millisecond)
			try(u, wrong(u))
			relogin()
		}
		_, fc, known := env.TOTPLimiter(u.name)
		env.ShiftTOTPLimiter(u.name, 2100*time.Millisecond)
		h5, _, _, code5 := try(u, verifTOTPCode(u.secret, time.Now()))
		rep.Eval(fmt.Sprintf("totp|lockout-across-relogin|honoured=%v", h5))
		rep.Count("totp_relogin_checked", 1)
		if h5 {
			rep.Violate("C14/totp/lockout-reset-by-relogin", "after 5 failed guesses, each followed by logout and login, the correct code was honoured: the failure count does not survive a re-login",
				map[string]interface{}{"user": u.name, "failures_recorded": fc, "limiter_entry_known": known, "status": code5})
		}
	}()
	// slow guessing: four evaluated failures, then 31 s of real time - the daemon's periodic state clean-up (every
	// 30 s) runs at least once - then the fifth failure: the failures before the pause still count, the correct code
	// is locked out
	wg.Add(1)
	go func() {
		defer wg.Done()
		u := mk("slow1")
		if u == nil {
			return
		}
		for i := 0; i < 4; i++ {
			env.ShiftTOTPLimiter(u.name, 2100*time.Millisecond)
			try(u, wrong(u))
		}
		_, fcBefore, _ := env.TOTPLimiter(u.name)
		time.Sleep(31 * time.Second)
		_, fcAfter, known := env.TOTPLimiter(u.name)
		try(u, wrong(u))
		env.ShiftTOTPLimiter(u.name, 2100*time.Millisecond)
		h, _, _, code := try(u, verifTOTPCode(u.secret, time.Now()))
		rep.Eval(fmt.Sprintf("totp|lockout-across-state-cleanup|honoured=%v", h))
		rep.Count("totp_slow_guessing_checked", 1)
		if h {
			rep.Violate("C14/totp/failures-forgotten-across-idle-period", "after 4 failed guesses, a 31-s pause and a 5th failed guess the correct code was honoured: the failures recorded before the pause no longer count",
				map[string]interface{}{"user": u.name, "failures_recorded_before_pause": fcBefore, "failures_recorded_after_pause": fcAfter, "limiter_entry_known_after_pause": known, "status": code})
		}
	}()
	// lock-out: 5 evaluated failures, then the correct code
	wg.Add(1)
	go func() {
		defer wg.Done()
		u := mk("lock1")
		if u == nil {
			return
		}
		fail := func(n int) {
			for i := 0; i < n; i++ {
				time.Sleep(2050 * time.Millisecond)
				try(u, wrong(u))
			}
		}
		fail(5)
		_, fc, _ := env.TOTPLimiter(u.name)
		time.Sleep(2050 * time.Millisecond)
		h, _, _, code := try(u, verifTOTPCode(u.secret, time.Now()))
		d5, _, _ := env.TOTPLimiter(u.name)
		rep.Eval(fmt.Sprintf("totp|lockout-after-5|honoured=%v", h))
		rep.Count("totp_lockout_checked", 1)
		c := map[string]interface{}{"user": u.name, "evaluated_failures": fc, "status": code, "lockout_remaining_s": d5.Seconds()}
		if h {
			rep.Violate("C14/totp/no-lockout-after-5-failures", "after 5 evaluated failures the correct code was still honoured: no lock-out", c)
			return
		}
		rep.Sample("totp-lockout-5", 1, c)
		// age the limiter by the remaining lock-out (+1 s): verification must work again
		env.ShiftTOTPLimiter(u.name, d5+time.Second+2*time.Second)
		// failures 6..10 (the correct code would reset the counter, so keep failing)
		for i := 0; i < 5; i++ {
			env.ShiftTOTPLimiter(u.name, 2100*time.Millisecond)
			try(u, wrong(u))
		}
		d10, fc10, _ := env.TOTPLimiter(u.name)
		rep.Eval(fmt.Sprintf("totp|lockout-after-10|longer=%v", d10 >= d5-5*time.Second))
		c2 := map[string]interface{}{"user": u.name, "evaluated_failures": fc10, "lockout_after_5_s": d5.Seconds(), "lockout_after_10_s": d10.Seconds()}
		if fc10 >= 10 && d10 < d5-5*time.Second {
			rep.Violate("C14/totp/lockout-not-escalating", "the lock-out after the 10th failure is shorter than after the 5th", c2)
		} else {
			rep.Sample("totp-lockout-10", 1, c2)
		}
		env.ShiftTOTPLimiter(u.name, 2100*time.Millisecond)
		h3, _, _, _ := try(u, verifTOTPCode(u.secret, time.Now()))
		if fc10 >= 10 && h3 {
			rep.Violate("C14/totp/no-lockout-after-10-failures", "after 10 evaluated failures the correct code was honoured", c2)
		}
	}()
	wg.Wait()
	outageDone := make(chan struct{})
	go func() { defer close(outageDone); c14TOTPOutage(rep) }()
	c14TOTPOverlap(rep)
	<-outageDone
}

// c14TOTPOverlap: a guess that arrives while another guess for the same user is still being evaluated.  The first
// (correct) guess is held inside its evaluation - at the profile save that records the used code, an existing
// suspension point seen through the interposing SQL driver - and a second guess is sent meanwhile.  Both lie inside
// one 2-second window (harness-bracketed), so the second must not be evaluated: the limiter's failure counter, read at
// the quiescent point before the first guess is released, must not have moved.
// c14TOTPOutage: the guessing limits while the primary store does not answer and profiles come from the offline cache
// (logins and code checks continue then; so must the throttling).  5 evaluated failures paced past the 2-s window,
// then the correct code: it must be locked out exactly as with the store reachable.
func c14TOTPOutage(rep *verifReport) {
	env, err := verifNewEnv(verifStateOpts{Name: "c14-outage", AllowedCerts: []string{"TOTP"}, AllowedWebUI: []string{"password"}, EnableTOTP: true,
		Users: map[string]string{"x": "y"}})
	if err != nil {
		rep.Inconc("totp outage env: %v", err)
		return
	}
	env.SetPasswordChecker(verifPWFunc(func(u string, p []byte) (bool, error) { return string(p) == "pw-"+u, nil }))
	primary, _, err := env.HookDBs()
	if err != nil {
		rep.Inconc("totp outage: hook: %v", err)
		return
	}
	trust, err := verifPublishedTrust(env)
	if err != nil {
		rep.Inconc("totp outage: trust: %v", err)
		return
	}
	name := "out1"
	ck, _ := verifLogin(env, name, "pw-"+name)
	secret, err := verifEnrollTOTP(env, ck)
	if err != nil {
		rep.Inconc("totp outage: enrol: %v", err)
		return
	}
	env.ShiftTOTPLimiter(name, 3*time.Second)
	env.SyncCache()
	gate := newVerifOutage()
	verifSQL.SetHook(primary, gate.Hook)
	env.SetOutage(gate, true)
	defer func() {
		env.SetOutage(gate, false)
		verifSQL.SetHook(primary, nil)
	}()
	post := func(code string) (bool, int) {
		r := env.Do(verifReq{Method: "POST", Path: "/api/v0/TOTPAuth", Form: url.Values{"OTP": {code}}, Cookies: verifCk(ck)}.Build())
		if c := r.Cookie("auth_cookie"); c != nil {
			if _, bits, ok := verifCookieInfo(c.Value, trust.Keys); ok && bits&verifBit["TOTP"] != 0 {
				return true, r.Code
			}
		}
		return false, r.Code
	}
	wrong := func() string {
		for _, c := range []string{"000000", "000001", "123456", "999999"} {
			if c != verifTOTPCode(secret, time.Now()) && c != verifTOTPCode(secret, time.Now().Add(-30*time.Second)) && c != verifTOTPCode(secret, time.Now().Add(30*time.Second)) {
				return c
			}
		}
		return "555555"
	}
	var codes []int
	for i := 0; i < 5; i++ {
		time.Sleep(2050 * time.Millisecond)
		h, code := post(wrong())
		codes = append(codes, code)
		if h {
			rep.Violate("C14/totp/wrong-code-honoured-during-outage", "a wrong code was honoured while the primary store was unreachable", map[string]interface{}{"statuses": codes})
			return
		}
	}
	_, fc, _ := env.TOTPLimiter(name)
	time.Sleep(2050 * time.Millisecond)
	h, code := post(verifTOTPCode(secret, time.Now()))
	lock, _, _ := env.TOTPLimiter(name)
	gate.mu.Lock()
	reads := gate.Reads
	gate.mu.Unlock()
	rep.Eval(fmt.Sprintf("totp|lockout-after-5-during-outage|honoured=%v|reads-from-cache=%v", h, reads > 0))
	c := map[string]interface{}{"user": name, "failure_statuses": codes, "evaluated_failures_recorded": fc, "status": code, "lockout_remaining_s": lock.Seconds(), "profile_reads_that_met_the_closed_store": reads}
	if reads == 0 {
		rep.Obs("totp outage: no profile read met the closed store (not judged)")
		return
	}
	rep.Count("totp_outage_lockout_checked", 1)
	if h {
		rep.Violate("C14/totp/no-lockout-after-5-failures-during-store-outage", "with the primary store unreachable (profiles from the offline cache), the correct code was honoured after 5 evaluated failures: guessing is not throttled during an outage", c)
		return
	}
	rep.Sample("totp-lockout-5-during-outage", 1, c)
}

func c14TOTPOverlap(rep *verifReport) {
	env, err := verifNewEnv(verifStateOpts{Name: "c14-overlap", AllowedCerts: []string{"TOTP"}, AllowedWebUI: []string{"password"}, EnableTOTP: true,
		Users: map[string]string{"x": "y"}})
	if err != nil {
		rep.Inconc("totp overlap env: %v", err)
		return
	}
	env.SetPasswordChecker(verifPWFunc(func(u string, p []byte) (bool, error) { return string(p) == "pw-"+u, nil }))
	primary, _, err := env.HookDBs()
	if err != nil {
		rep.Inconc("totp overlap: hook: %v", err)
		return
	}
	rounds := 3
	if verifThorough() {
		rounds = 12
	}
	for i := 0; i < rounds; i++ {
		name := fmt.Sprintf("ov%d", i)
		ck, _ := verifLogin(env, name, "pw-"+name)
		secret, err := verifEnrollTOTP(env, ck)
		if err != nil {
			rep.Inconc("totp overlap: enrol: %v", err)
			return
		}
		env.ShiftTOTPLimiter(name, 3*time.Second) // enrolment validated a code: start from a quiet limiter
		_, fc0, _ := env.TOTPLimiter(name)
		// two suspension points seen through the interposing SQL driver: the second guess (B) is parked right after its
		// profile load (before its limiter check); the first, correct guess (A) is parked at the profile save inside
		// its evaluation (after its limiter check).  B is then released while A is still being evaluated.
		bLoaded, releaseB := make(chan struct{}, 1), make(chan struct{})
		aSaving, releaseA := make(chan struct{}, 1), make(chan struct{})
		var stage int32 = 1
		verifSQL.SetHook(primary, func(op verifSQLOp) error {
			t := strings.ToLower(strings.TrimSpace(op.Text))
			switch {
			case op.Kind == "rows-closed" && strings.HasPrefix(t, "select profile_data") && atomic.CompareAndSwapInt32(&stage, 1, 2):
				bLoaded <- struct{}{}
				<-releaseB
			case op.IsWrite() && strings.Contains(t, "user_profile") && atomic.CompareAndSwapInt32(&stage, 3, 4):
				aSaving <- struct{}{}
				<-releaseA
			}
			return nil
		})
		post := func(code string) *verifResp {
			return env.Do(verifReq{Method: "POST", Path: "/api/v0/TOTPAuth", Form: url.Values{"OTP": {code}}, Cookies: verifCk(ck)}.Build())
		}
		good := verifTOTPCode(secret, time.Now())
		bad := "000000"
		for _, c := range []string{"000000", "000001", "123456", "999999"} {
			if c != good && c != verifTOTPCode(secret, time.Now().Add(-30*time.Second)) && c != verifTOTPCode(secret, time.Now().Add(30*time.Second)) {
				bad = c
				break
			}
		}
		doneA, doneB := make(chan *verifResp, 1), make(chan *verifResp, 1)
		var relA, relB sync.Once
		unwind := func(why string) {
			relB.Do(func() { close(releaseB) })
			relA.Do(func() { close(releaseA) })
			verifSQL.SetHook(primary, nil)
			rep.Count("totp_overlap_not_reached", 1)
			rep.Obs("totp overlap round %d: %s (not judged)", i, why)
			time.Sleep(200 * time.Millisecond)
		}
		wait := func(c chan struct{}) bool {
			select {
			case <-c:
				return true
			case <-time.After(20 * time.Second):
				return false
			}
		}
		go func() { doneB <- post(bad) }()
		if !wait(bLoaded) {
			unwind("the second guess never reached its profile load")
			continue
		}
		atomic.StoreInt32(&stage, 3)
		t0 := time.Now()
		go func() { doneA <- post(good) }()
		if !wait(aSaving) {
			// (with the second guess parked right after its profile load: a tree that serialises one user's code checks
			// from before the load keeps the first guess waiting - the overlap this round is after cannot exist there)
			unwind("the first guess never reached its profile save while the second was parked after its load: the two are serialised")
			rep.Count("totp_overlap_rounds_decided", 1)
			continue
		}
		relB.Do(func() { close(releaseB) })
		var rb *verifResp
		select {
		case rb = <-doneB:
		case <-time.After(20 * time.Second):
		}
		if rb == nil {
			unwind("the second guess did not return while the first was held")
			continue
		}
		t1 := time.Now()
		_, fc1, _ := env.TOTPLimiter(name)
		relA.Do(func() { close(releaseA) })
		ra := <-doneA
		verifSQL.SetHook(primary, nil)
		within := t1.Sub(t0) < 2*time.Second
		evaluated := fc1 > fc0
		rep.Eval(fmt.Sprintf("totp|overlap|inside-window=%v|second-evaluated=%v", within, evaluated))
		c := map[string]interface{}{"user": name, "first_guess_status": ra.Code, "second_guess_status": rb.Code, "failures_before": fc0, "failures_after_second_guess": fc1,
			"both_inside_ms": t1.Sub(t0).Milliseconds()}
		if !within {
			rep.Count("totp_spacing_inconclusive_samples", 1)
			continue
		}
		rep.Count("totp_overlap_checked", 1)
		rep.Count("totp_overlap_rounds_decided", 1)
		if evaluated {
			rep.Violate("C14/totp/evaluated-while-another-guess-in-flight", "a guess sent while another guess for the same user was still being evaluated (both inside 2 s) was evaluated too", c)
		} else {
			rep.Sample("totp-overlap", 1, c)
		}
	}
}

func min32(a int32, b int32) int32 {
	if a < b {
		return a
	}
	return b
}
