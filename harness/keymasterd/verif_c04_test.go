package main

// C04 - signed tokens are unforgeable and never accepted outside their purpose.
//
// Oracle: a consumer may honour an artefact only if it was signed by a
// deployment key with that key's proper algorithm, is of the consumer's kind,
// is inside its validity window, and (session / CLI / storage) names this
// server as issuer and audience, and (storage) names the row owner.  A
// rejection must have no side effects: no auth cookie, no signed material, no
// change of the stored profiles / records.

import (
	"crypto"
	"crypto/sha256"
	"crypto/x509"
	"database/sql"
	"encoding/json"
	"fmt"
	"net/url"
	"strings"
	"testing"
	"time"

	"github.com/go-jose/go-jose/v4"
)

type c04Artefact struct {
	Kind   string // session | cli | code | access | id | storage
	Token  string
	Claims verifClaims
}

type c04Consumer struct {
	Name    string
	Kind    string
	Present func(tok string) verifReq
	Honours func(r *verifResp) bool
	// Direct consumers (storage) bypass HTTP
	Direct func(tok string) bool
}

func c04DBDigest(db *sql.DB) string {
	h := sha256.New()
	for _, q := range []string{"select username, profile_data from user_profile order by username",
		"select username, type, jws_data, expiration_epoch from expiring_signed_user_data order by username, type"} {
		rows, err := db.Query(q)
		if err != nil {
			return "err:" + err.Error()
		}
		cols, _ := rows.Columns()
		for rows.Next() {
			vals := make([]interface{}, len(cols))
			ptrs := make([]interface{}, len(cols))
			for i := range vals {
				ptrs[i] = &vals[i]
			}
			rows.Scan(ptrs...)
			fmt.Fprintf(h, "%v|", vals)
		}
		rows.Close()
	}
	return fmt.Sprintf("%x", h.Sum(nil))[:16]
}

type c04Case struct {
	Consumer string `json:"consumer"`
	Artefact string `json:"artefact"`
	Mutation string `json:"mutation"`
	Status   int    `json:"status"`
	Honoured bool   `json:"honoured"`
	Note     string `json:"note,omitempty"`
}

func c04Run(t *testing.T, rep *verifReport, caFixture string, ed bool) {
	vip := newVerifFakeVIP()
	defer vip.Server.Close()
	oidc := "openid_connect_idp:\n    clients:\n        - client_id: \"client-a\"\n          client_secret: \"secret-a\"\n          allowed_redirect_domains: [\"example.com\"]\n"
	env, err := verifNewEnv(verifStateOpts{Name: "c04-" + caFixture, CAKey: caFixture, Ed25519: ed, Users: map[string]string{"alice": "alice-pw", "bob": "bob-pw"},
		AllowedCerts: []string{"password"}, AllowedWebUI: []string{"password"}, CLILifetime: "1h", VIP: true, ExtraTop: oidc})
	if err != nil {
		t.Fatal(err)
	}
	env.InstallFakeVIP(vip)
	vip.SetOTP("alice", 111111)
	ca := verifSigner(caFixture)
	trust, err := verifPublishedTrust(env)
	if err != nil {
		t.Fatal(err)
	}
	// ------------------------------------------------ producers: the real flows
	arte := map[string]*c04Artefact{}
	session, _ := verifLogin(env, "alice", "alice-pw")
	bobSession, _ := verifLogin(env, "bob", "bob-pw")
	if session == "" || bobSession == "" {
		t.Fatal("login failed")
	}
	mk := func(kind, tok string) {
		_, p, _, ok := verifSplitJWS(tok)
		if !ok {
			rep.Inconc("producer %s did not yield a JWS", kind)
			return
		}
		var c verifClaims
		json.Unmarshal(p, &c)
		arte[kind] = &c04Artefact{kind, tok, c}
	}
	mk("session", session)
	{
		r := env.Do(verifReq{Path: "/showAuthToken", Cookies: verifCk(session), Header: map[string]string{"Accept": "text/html"}}.Build())
		mk("cli", verifJWSRe.FindString(string(r.Body)))
	}
	{
		qs := url.Values{"response_type": {"code"}, "client_id": {"client-a"}, "scope": {"openid"}, "redirect_uri": {"https://app.example.com/cb"}, "state": {"s"}, "nonce": {"nonce-1234"}}
		r := env.Do(verifReq{Path: "/idp/oauth2/authorize?" + qs.Encode(), Cookies: verifCk(session)}.Build())
		lu, _ := url.Parse(r.Header.Get("Location"))
		code := ""
		if lu != nil {
			code = lu.Query().Get("code")
		}
		// (a second authorization gives the code that stands for its kind below: the first one is spent on obtaining
		// the access and ID tokens, and a tree may - rightly - refuse a code that has been redeemed once)
		mk("code", code)
		if r2 := env.Do(verifReq{Path: "/idp/oauth2/authorize?" + qs.Encode(), Cookies: verifCk(session)}.Build()); r2.Code == 302 {
			if lu2, _ := url.Parse(r2.Header.Get("Location")); lu2 != nil && lu2.Query().Get("code") != "" {
				mk("code", lu2.Query().Get("code"))
			}
		}
		r = env.Do(verifReq{Method: "POST", Path: "/idp/oauth2/token", Form: url.Values{"grant_type": {"authorization_code"}, "code": {code},
			"redirect_uri": {"https://app.example.com/cb"}, "client_id": {"client-a"}, "client_secret": {"secret-a"}}}.Build())
		var tr struct {
			AccessToken string `json:"access_token"`
			IDToken     string `json:"id_token"`
		}
		json.Unmarshal(r.Body, &tr)
		mk("access", tr.AccessToken)
		mk("id", tr.IDToken)
	}
	// storage record produced by the daemon's own signed store
	if err := env.UpsertSigned("alice", 1, time.Now().Add(time.Hour).Unix(), "stored-value-1"); err != nil {
		t.Fatal(err)
	}
	{
		var jws string
		env.DB().QueryRow("select jws_data from expiring_signed_user_data where username='alice' and type=1").Scan(&jws)
		mk("storage", jws)
	}
	for _, k := range []string{"session", "cli", "code", "access", "id", "storage"} {
		if arte[k] == nil {
			t.Fatalf("producer %s failed", k)
		}
	}
	sideC, _ := sql.Open("sqlite3", env.CacheDBPath())
	defer sideC.Close()
	setStorageRow := func(tok string) {
		env.DB().Exec("update expiring_signed_user_data set jws_data=? where username='alice' and type=1", tok)
	}
	// ------------------------------------------------ consumers
	certReq := func(tok string) verifReq {
		q := verifCertReq("alice", "ssh", verifSSHAuthorizedKey(verifUserECKey().Public()), "1h", nil)
		q.Cookies = verifCk(tok)
		return q
	}
	consumers := []c04Consumer{
		{Name: "cookie@profile", Kind: "session", Present: func(tok string) verifReq {
			return verifReq{Path: "/profile/", Cookies: verifCk(tok)}
		}, Honours: func(r *verifResp) bool { return r.Code == 200 }},
		{Name: "cookie@certgen", Kind: "session", Present: certReq, Honours: func(r *verifResp) bool { return r.Code == 200 }},
		{Name: "cookie@vip-upgrade", Kind: "session", Present: func(tok string) verifReq {
			return verifReq{Method: "POST", Path: "/api/v0/vipAuth", Form: url.Values{"OTP": {"111111"}}, Cookies: verifCk(tok)}
		}, Honours: func(r *verifResp) bool { return r.Code == 200 || r.Cookie("auth_cookie") != nil }},
		{Name: "cookie@u2f-signrequest", Kind: "session", Present: func(tok string) verifReq {
			return verifReq{Path: "/u2f/SignRequest", Cookies: verifCk(tok)}
		}, Honours: func(r *verifResp) bool { return r.Code == 200 || (r.Code == 400 && strings.Contains(string(r.Body), "egist")) }},
		{Name: "cli@verifyAuthToken", Kind: "cli", Present: func(tok string) verifReq {
			return verifReq{Path: "/verifyAuthToken?token=" + url.QueryEscape(tok)}
		}, Honours: func(r *verifResp) bool { return r.Code == 200 }},
		{Name: "cli@sendAuthDocument", Kind: "cli", Present: func(tok string) verifReq {
			return verifReq{Path: "/sendAuthDocument?port=12345&token=" + url.QueryEscape(tok), Cookies: verifCk(session)}
		}, Honours: func(r *verifResp) bool { return r.Code >= 300 && r.Code < 400 && strings.Contains(r.Header.Get("Location"), "auth_cookie=") }},
		{Name: "code@token", Kind: "code", Present: func(tok string) verifReq {
			return verifReq{Method: "POST", Path: "/idp/oauth2/token", Form: url.Values{"grant_type": {"authorization_code"}, "code": {tok},
				"redirect_uri": {"https://app.example.com/cb"}, "client_id": {"client-a"}, "client_secret": {"secret-a"}}}
		}, Honours: func(r *verifResp) bool { return r.Code == 200 && strings.Contains(string(r.Body), "access_token") }},
		{Name: "access@userinfo-header", Kind: "access", Present: func(tok string) verifReq {
			return verifReq{Path: "/idp/oauth2/userinfo", Header: map[string]string{"Authorization": "Bearer " + tok}}
		}, Honours: func(r *verifResp) bool { return r.Code == 200 }},
		{Name: "access@userinfo-form", Kind: "access", Present: func(tok string) verifReq {
			return verifReq{Method: "POST", Path: "/idp/oauth2/userinfo", Form: url.Values{"access_token": {tok}}}
		}, Honours: func(r *verifResp) bool { return r.Code == 200 }},
		{Name: "storage@GetSigned", Kind: "storage", Direct: func(tok string) bool {
			setStorageRow(tok)
			ok, data, err := env.GetSigned("alice", 1)
			return err == nil && ok && data != ""
		}},
		{Name: "storage@GetSigned(offline-cache)", Kind: "storage", Direct: func(tok string) bool {
			sideC.Exec("delete from expiring_signed_user_data where username='alice' and type=1")
			sideC.Exec("insert into expiring_signed_user_data(username,type,jws_data,expiration_epoch,update_epoch) values('alice',1,?,?,?)", tok, time.Now().Add(time.Hour).Unix(), time.Now().Unix())
			ok, data, err := env.GetSignedFrom("alice", 1, true)
			return err == nil && ok && data != ""
		}},
	}
	judge := func(c c04Consumer, a *c04Artefact, tok, mutation string, mayHonour bool, unspecified bool) {
		before := c04DBDigest(env.DB())
		var honoured bool
		var resp *verifResp
		status := 0
		if c.Direct != nil {
			honoured = c.Direct(tok)
			setStorageRow(arte["storage"].Token)
		} else {
			q := c.Present(tok)
			resp = env.Do(q.Build())
			status = resp.Code
			honoured = c.Honours(resp)
		}
		cs := c04Case{Consumer: c.Name, Artefact: a.Kind, Mutation: mutation, Status: status, Honoured: honoured}
		rep.Eval(fmt.Sprintf("%s|%s|%s|honoured=%v", c.Name, a.Kind, mutation, honoured))
		if resp != nil && resp.Panic != "" {
			rep.Violate("C04/panic/"+c.Name, "consumer panicked", map[string]interface{}{"case": cs, "panic": firstLines(resp.Panic, 10)})
			return
		}
		if unspecified {
			rep.Count("unspecified", 1)
			return
		}
		if honoured && !mayHonour {
			cs.Note = "artefact honoured although the model rejects it"
			rep.Violate("C04/honoured/"+c.Name+"/"+a.Kind+"/"+mutation, cs.Note, cs)
			return
		}
		if !honoured && mayHonour {
			cs.Note = "a genuine artefact of the consumer's own kind was not honoured"
			rep.Violate("C04/genuine-refused/"+c.Name+"/"+mutation, cs.Note, cs)
			return
		}
		if !honoured {
			rep.Count("rejections", 1)
			after := c04DBDigest(env.DB())
			var side []string
			if after != before {
				side = append(side, "stored data changed")
			}
			if resp != nil {
				if sm := verifSignedMaterial(resp); len(sm) > 0 {
					side = append(side, "signed material: "+strings.Join(sm, ","))
				}
			}
			if len(side) > 0 {
				cs.Note = strings.Join(side, "; ")
				rep.Violate("C04/side-effect-on-rejection/"+c.Name+"/"+mutation, cs.Note, cs)
			} else {
				rep.Sample("rejected:"+c.Name+":"+mutation, 1, cs)
			}
		} else {
			rep.Count("honoured_genuine", 1)
			rep.Sample("honoured:"+c.Name, 1, cs)
		}
	}
	// 1. producer x consumer matrix
	for _, c := range consumers {
		for _, k := range []string{"session", "cli", "code", "access", "id", "storage"} {
			judge(c, arte[k], arte[k].Token, "genuine", c.Kind == k, false)
		}
	}
	// 2. single-claim mutants of the consumer's own kind, re-signed with the deployment key
	now := time.Now()
	type mutant struct {
		name   string
		mut    func(c verifClaims)
		reject map[string]bool // kinds for which the statement demands rejection
		unspec map[string]bool
	}
	all := map[string]bool{"session": true, "cli": true, "code": true, "access": true, "storage": true}
	sts := map[string]bool{"session": true, "cli": true, "storage": true}
	mutants := []mutant{
		{"issuer", func(c verifClaims) { c["iss"] = "https://evil.example:33443" }, sts, map[string]bool{"code": true, "access": true}},
		{"issuer-prefix", func(c verifClaims) { c["iss"] = verifIssuer + ".evil.example" }, sts, map[string]bool{"code": true, "access": true}},
		{"audience", func(c verifClaims) { c["aud"] = []string{"https://evil.example:33443"} }, sts, map[string]bool{"code": true, "access": true}},
		{"audience-empty", func(c verifClaims) { c["aud"] = []string{} }, sts, map[string]bool{"code": true, "access": true}},
		{"audience-extends-port", func(c verifClaims) { c["aud"] = []string{verifIssuer + "0"} }, sts, map[string]bool{"code": true, "access": true}},
		{"audience-extends-host", func(c verifClaims) { c["aud"] = []string{verifIssuer + ".attacker.test"} }, sts, map[string]bool{"code": true, "access": true}},
		{"audience-extends-path", func(c verifClaims) { c["aud"] = []string{verifIssuer + "/other"} }, sts, map[string]bool{"code": true, "access": true}},
		{"audience-is-prefix", func(c verifClaims) { c["aud"] = []string{verifIssuer[:len(verifIssuer)-1]} }, sts, map[string]bool{"code": true, "access": true}},
		{"issuer-extends-path", func(c verifClaims) { c["iss"] = verifIssuer + "/other" }, sts, map[string]bool{"code": true, "access": true}},
		{"issuer-is-prefix", func(c verifClaims) { c["iss"] = verifIssuer[:len(verifIssuer)-1] }, sts, map[string]bool{"code": true, "access": true}},
		{"issuer-case", func(c verifClaims) { c["iss"] = strings.ToUpper(verifIssuer) }, sts, map[string]bool{"code": true, "access": true}},
		{"audience-absent", func(c verifClaims) { delete(c, "aud") }, sts, map[string]bool{"code": true, "access": true}},
		{"kind-token_type", func(c verifClaims) {
			if _, ok := c["token_type"]; ok {
				c["token_type"] = "something_else"
			} else {
				c["type"] = "something_else"
			}
		}, all, nil},
		{"kind-absent", func(c verifClaims) { delete(c, "token_type"); delete(c, "type") }, all, nil},
		{"nbf+1h", func(c verifClaims) { c["nbf"] = now.Add(time.Hour).Unix() }, sts, map[string]bool{"code": true, "access": true}},
		// not yet valid by less than the minute a JWT library's default leeway forgives (set relative to the moment of use)
		{"nbf+45s", func(c verifClaims) { c["nbf"] = time.Now().Add(45 * time.Second).Unix() }, sts, map[string]bool{"code": true, "access": true}},
		{"nbf+20s", func(c verifClaims) { c["nbf"] = time.Now().Add(20 * time.Second).Unix() }, sts, map[string]bool{"code": true, "access": true}},
		{"expired-1h", func(c verifClaims) { c["exp"] = now.Add(-time.Hour).Unix() }, map[string]bool{"session": true, "cli": true, "code": true, "access": true}, map[string]bool{"storage": true}},
		{"expired-2s", func(c verifClaims) { c["exp"] = now.Add(-2 * time.Second).Unix() }, map[string]bool{"session": true, "cli": true, "code": true, "access": true}, map[string]bool{"storage": true}},
		// no validity window at all: expiry at the epoch, or the claim left out
		{"expiry-zero", func(c verifClaims) { c["exp"] = 0 }, map[string]bool{"session": true, "cli": true, "code": true, "access": true}, map[string]bool{"storage": true}},
		{"expiry-absent", func(c verifClaims) { delete(c, "exp") }, map[string]bool{"session": true, "cli": true, "code": true, "access": true}, map[string]bool{"storage": true}},
		{"expiry-one", func(c verifClaims) { c["exp"] = 1 }, map[string]bool{"session": true, "cli": true, "code": true, "access": true}, map[string]bool{"storage": true}},
	}
	kindOf := map[string]string{}
	for _, c := range consumers {
		kindOf[c.Name] = c.Kind
	}
	for _, c := range consumers {
		a := arte[c.Kind]
		for _, m := range mutants {
			cl := a.Claims.clone()
			m.mut(cl)
			if _, has := cl["jti"]; has && c.Kind == "code" && !m.reject[c.Kind] {
				// a variant the model lets through is a different code, not a replay of the one redeemed above
				cl["jti"] = fmt.Sprintf("verif-%s-%d", m.name, time.Now().UnixNano())
			}
			tok := verifMint(cl, ca)
			judge(c, a, tok, "claim:"+m.name, !m.reject[c.Kind], m.unspec[c.Kind] && !m.reject[c.Kind])
		}
		// subject mutants where the statement binds the subject
		if strings.HasPrefix(c.Name, "storage@GetSigned") || c.Name == "cli@sendAuthDocument" {
			cl := a.Claims.clone()
			cl["sub"] = "bob"
			judge(c, a, verifMint(cl, ca), "claim:subject-other-user", false, false)
		}
		// signed expiry of a storage record that the unsigned column still calls valid
		if strings.HasPrefix(c.Name, "storage@GetSigned") {
			cl := a.Claims.clone()
			cl["exp"] = now.Add(-time.Hour).Unix()
			judge(c, a, verifMint(cl, ca), "claim:signed-expiry-past(column-valid)", false, false)
		}
	}
	// 3. header / key substitutions
	pkixDER, _ := x509.MarshalPKIXPublicKey(ca.Public())
	pubEnc := map[string][]byte{"pkix-pem": []byte(verifPKIXPEM(ca.Public())), "pkix-der": pkixDER, "ssh-authorized": []byte(verifSSHAuthorizedKey(ca.Public()))}
	for _, c := range consumers {
		a := arte[c.Kind]
		judge(c, a, verifMintNone(a.Claims), "alg:none", false, false)
		for encName, enc := range pubEnc {
			for _, alg := range []jose.SignatureAlgorithm{jose.HS256, jose.HS384, jose.HS512} {
				judge(c, a, verifMintHMACWithPublicKey(a.Claims, alg, enc), "alg:"+string(alg)+"-keyed-with-"+encName, false, false)
			}
		}
		for _, fk := range []string{"foreign_rsa2048", "foreign_ec384", "foreign_ed25519"} {
			judge(c, a, verifMint(a.Claims, verifSigner(fk)), "key:"+fk, false, false)
			// embedded jwk / kid pointing at the attacker's key
			fs := verifSigner(fk)
			tok := verifMintAlg(a.Claims, jose.SigningKey{Algorithm: verifJoseAlg(fs.Public()), Key: jose.JSONWebKey{Key: fs, KeyID: verifSSHFingerprintHex(ca.Public())}},
				nil)
			judge(c, a, tok, "key:"+fk+"+kid-of-deployment-key", false, false)
			opts := (&jose.SignerOptions{EmbedJWK: true}).WithType("JWT")
			if s, err := jose.NewSigner(jose.SigningKey{Algorithm: verifJoseAlg(fs.Public()), Key: jose.JSONWebKey{Key: fs, KeyID: "x"}}, opts); err == nil {
				payload, _ := json.Marshal(a.Claims)
				if obj, err := s.Sign(payload); err == nil {
					if tok, err := obj.CompactSerialize(); err == nil {
						judge(c, a, tok, "key:"+fk+"+embedded-jwk", false, false)
					}
				}
			}
		}
	}
	// 4. byte-level corruption of the decoded parts of genuine artefacts
	rng := verifRand("c04-" + caFixture)
	nCorrupt := 25
	if verifThorough() {
		nCorrupt = 6000
	}
	for _, c := range consumers {
		a := arte[c.Kind]
		h, p, s, _ := verifSplitJWS(a.Token)
		for i := 0; i < nCorrupt; i++ {
			hh, pp, ss := append([]byte{}, h...), append([]byte{}, p...), append([]byte{}, s...)
			part := []string{"header", "payload", "signature"}[i%3]
			tgt := map[string]*[]byte{"header": &hh, "payload": &pp, "signature": &ss}[part]
			switch rng.Intn(3) {
			case 0:
				(*tgt)[rng.Intn(len(*tgt))] ^= byte(1 << rng.Intn(8))
			case 1:
				*tgt = (*tgt)[:len(*tgt)-1-rng.Intn(3)]
			default:
				*tgt = append(*tgt, byte(rng.Intn(256)))
			}
			tok := verifJoinJWS(hh, pp, ss)
			h2, p2, s2, ok := verifSplitJWS(tok)
			if ok && string(h2) == string(h) && string(p2) == string(p) && string(s2) == string(s) {
				rep.Count("corruptions_nonsemantic_skipped", 1)
				continue
			}
			// a header mutation that keeps the JSON meaning (e.g. whitespace) and the signature input intact cannot exist: the signature covers the encoded header
			judge(c, a, tok, "corrupt:"+part, false, false)
		}
	}
	_ = trust
	_ = crypto.SHA256
}

func TestVerifC04(t *testing.T) {
	rep := newVerifReport("C04", "producers are the real flows (login -> session cookie, show-token page -> CLI token, authorize -> code, token endpoint -> access + ID token, signed store -> storage record); every producer x every consumer (cookie at profile/certgen/level-upgrade/U2F begin, CLI token at verify/sendAuthDocument, code at token endpoint, access token at userinfo header/form, storage record at the signed store); single-claim mutants re-signed with the deployment key (issuer, audience, kind, nbf, expiry, subject); header/key substitutions (none, HS256/384/512 keyed with PKIX-PEM/DER/SSH encodings of the public key, foreign RSA/EC/Ed25519 keys, kid / embedded jwk tricks); seeded corruption of decoded header/payload/signature; rejections must be free of side effects; RSA and ECDSA+Ed25519 deployments; class = (consumer, artefact kind, mutation, honoured)")
	defer rep.Finish()
	c04Run(t, rep, "ca_rsa2048", false)
	c04Run(t, rep, "ca_ec256", true)
	c04RetiredKeys(rep)
	rep.Floor("honoured_genuine", 16)
	rep.Floor("retired_key_deployments_probed", 3)
	rep.Floor("rejections", 400)
}

// c04RetiredKeys: the operator's public-keys file (keys of the other instances, which this daemon trusts for tokens) with
// a key that has been retired the way operators retire lines - commented out with '#', the comment character of the
// authorized_keys format the file uses.  Either
// the daemon refuses such a file at start-up, or it starts and then must not honour anything signed with the retired key.
func c04RetiredKeys(rep *verifReport) {
	retired := verifSigner("foreign_rsa2048")
	line := strings.TrimSpace(verifSSHAuthorizedKey(retired.Public()))
	variants := map[string]string{
		"hash-space-key":        "# " + line + " retired 2024-01\n",
		"hash-key":              "#" + line + "\n",
		"comment-then-key":      "# keys of the other instances\n\n# " + line + "\n",
		"label-hash-key":        "old-instance # " + line + "\n",
	}
	oidc := "openid_connect_idp:\n    clients:\n        - client_id: \"client-a\"\n          client_secret: \"secret-a\"\n          allowed_redirect_domains: [\"example.com\"]\n"
	for name, raw := range variants {
		env, err := verifNewEnv(verifStateOpts{Name: "c04-retired-" + name, Users: map[string]string{"alice": "alice-pw"}, AllowedCerts: []string{"password"},
			AllowedWebUI: []string{"password"}, CLILifetime: "1h", PublicKeysFile: true, PublicKeysList: []string{"ca_rsa2048"}, PublicKeysRaw: raw, ExtraTop: oidc})
		rep.Count("retired_key_deployments_probed", 1)
		if err != nil {
			rep.Eval("retired-key|" + name + "|refused-at-startup")
			rep.Count("retired_key_file_refused_at_startup", 1)
			continue
		}
		now := time.Now()
		cookie := verifMint(verifSessionClaims("alice", verifBit["password"]|verifBit["U2F"], now.Add(-time.Minute), time.Hour), retired)
		probes := []struct {
			consumer string
			q        verifReq
		}{
			{"cookie@profile", verifReq{Method: "GET", Path: "/profile/", Cookies: verifCk(cookie)}},
			{"cookie@certgen", func() verifReq {
				q := verifCertReq("alice", "x509", verifPKIXPEM(verifUserECKey().Public()), "1h", nil)
				q.Cookies = verifCk(cookie)
				return q
			}()},
			{"cookie@users", verifReq{Method: "GET", Path: "/api/v0/logout", Cookies: verifCk(cookie)}},
		}
		for _, p := range probes {
			resp := env.Do(p.q.Build())
			honoured := resp.Code == 200 && (p.consumer != "cookie@users")
			if p.consumer == "cookie@certgen" {
				honoured = len(verifSignedMaterial(resp)) > 0
			}
			rep.Eval(fmt.Sprintf("retired-key|%s|%s|honoured=%v", name, p.consumer, honoured))
			if honoured {
				rep.Violate("C04/honoured/retired-key/"+p.consumer+"/"+name, "a token signed with a key that is commented out in the public-keys file was honoured",
					c04Case{Consumer: p.consumer, Artefact: "session", Mutation: "signed with the retired key (" + name + ")", Status: resp.Code, Honoured: true})
			} else {
				rep.Count("rejections", 1)
			}
		}
	}
}
