package main

// C15 - profiles survive storage round trips; the offline cache mirrors the
// primary; an interrupted synchronisation leaves old or new content; while the
// primary is unreachable authentication continues from the cache and every
// profile-changing operation is refused.

import (
	"database/sql"
	"fmt"
	"net/url"
	"sort"
	"strings"
	"sync"
	"testing"
	"time"
)

func c15Rows(db *sql.DB, onlyUnexpired bool) (profiles map[string]string, records map[string]string) {
	profiles, records = map[string]string{}, map[string]string{}
	rows, err := db.Query("select username, profile_data from user_profile")
	if err == nil {
		for rows.Next() {
			var u string
			var b []byte
			rows.Scan(&u, &b)
			profiles[u] = verifSHA256Hex(b)[:16]
		}
		rows.Close()
	}
	q := "select username, type, jws_data, expiration_epoch from expiring_signed_user_data"
	if onlyUnexpired {
		q += fmt.Sprintf(" where expiration_epoch > %d", time.Now().Unix())
	}
	rows, err = db.Query(q)
	if err == nil {
		for rows.Next() {
			var u, j string
			var t int
			var e int64
			rows.Scan(&u, &t, &j, &e)
			records[fmt.Sprintf("%s/%d", u, t)] = fmt.Sprintf("%s@%d", verifSHA256Hex([]byte(j))[:16], e)
		}
		rows.Close()
	}
	return
}

func c15Canon(p, r map[string]string) string {
	var l []string
	for k, v := range p {
		l = append(l, "P:"+k+"="+v)
	}
	for k, v := range r {
		l = append(l, "R:"+k+"="+v)
	}
	sort.Strings(l)
	return strings.Join(l, "\n")
}

func TestVerifC15(t *testing.T) {
	rep := newVerifReport("C15", "(round trip) profiles made by real enrolment flows (U2F registrations with attestation certificates, TOTP, pending challenges, bootstrap OTP) and generated variations of every field, saved and read back through the daemon's loader from the primary and, after a sync, from the cache, compared field-wise; (mirror) seeded histories of add/change/delete user and upsert/delete/expire signed record interleaved with synchronisations, cache row sets == primary's users and unexpired records after every completed sync; (faults) a failure and a connection cut injected at every driver call of a synchronisation on either connection: cache == before or == clean sync; (outage) primary gated, not answering or refusing at once: logins and second-factor checks continue from the cache, every mutating route answers >= 400 without attempting a profile write; class = (part, operation / fault position, outcome)")
	defer rep.Finish()
	rng := verifRand("c15")
	vip := newVerifFakeVIP()
	defer vip.Server.Close()
	env, err := verifNewEnv(verifStateOpts{Name: "c15", AllowedCerts: []string{"U2F", "TOTP"}, AllowedWebUI: []string{"password"}, AdminUsers: []string{"root1"},
		EnableTOTP: true, EnableBootstrap: true, VIP: true, Users: map[string]string{"x": "y"}})
	if err != nil {
		t.Fatal(err)
	}
	env.InstallFakeVIP(vip)
	env.SetPasswordChecker(verifPWFunc(func(u string, p []byte) (bool, error) { return string(p) == "pw-"+u, nil }))
	pl, cl, err := env.HookDBs()
	if err != nil {
		t.Fatal(err)
	}
	side, _ := sql.Open("sqlite3", env.PrimaryDBPath())
	sideC, _ := sql.Open("sqlite3", env.CacheDBPath())
	phase := time.Now()
	lap := func(name string) {
		rep.Extra["seconds_"+name] = fmt.Sprintf("%.1f", time.Since(phase).Seconds())
		phase = time.Now()
	}
	// ------------------------------------------------------------ (1) round trips
	rootCk, _ := verifLogin(env, "root1", "pw-root1")
	type enrolled struct {
		name   string
		ck     string
		secret string
		tok    *verifU2FToken
	}
	var real []enrolled
	for i := 0; i < 3; i++ {
		u := fmt.Sprintf("rt%d", i)
		ck, _ := verifLogin(env, u, "pw-"+u)
		e := enrolled{name: u, ck: ck, tok: newVerifU2FToken()}
		if err := verifEnrollU2F(env, ck, u, e.tok); err != nil {
			t.Fatal(err)
		}
		if e.secret, err = verifEnrollTOTP(env, ck); err != nil {
			t.Fatal(err)
		}
		// leave pending state in the profile too
		env.Do(verifReq{Method: "GET", Path: "/u2f/RegisterRequest/" + u, Cookies: verifCk(ck)}.Build())
		env.Do(verifReq{Method: "POST", Path: "/totp/GenerateNew/", Cookies: verifCk(ck)}.Build())
		env.Do(verifReq{Method: "GET", Path: "/webauthn/RegisterRequest/" + u, Cookies: verifCk(ck)}.Build())
		real = append(real, e)
	}
	verifAdminAddUser(env, rootCk, "bsuser")
	verifAdminBootstrapOTP(env, rootCk, "bsuser", "2h")
	nGen := 40
	if verifThorough() {
		nGen = 2000
	}
	var names []string
	for _, e := range real {
		names = append(names, e.name)
	}
	names = append(names, "bsuser")
	wrote := map[string]*userProfile{}
	for i := 0; i < nGen; i++ {
		dst := fmt.Sprintf("gen%d", i)
		p, err := env.GenerateProfileFrom(real[i%len(real)].name, dst, rng)
		if err != nil {
			rep.Violate("C15/roundtrip/save-failed", err.Error(), nil)
			continue
		}
		wrote[dst] = p
		names = append(names, dst)
	}
	if err := env.SyncCache(); err != nil {
		t.Fatal(err)
	}
	for _, u := range names {
		a, okA, errA := env.LoadProfileFrom(u, false)
		b, okB, errB := env.LoadProfileFrom(u, true)
		rep.Eval(fmt.Sprintf("roundtrip|%s|primary=%v|cache=%v", map[bool]string{true: "generated", false: "real-flow"}[strings.HasPrefix(u, "gen")], okA && errA == nil, okB && errB == nil))
		if errA != nil || errB != nil || !okA || !okB {
			rep.Violate("C15/roundtrip/unreadable", fmt.Sprintf("profile %s: primary ok=%v err=%v cache ok=%v err=%v", u, okA, errA, okB, errB), nil)
			continue
		}
		if d := verifProfilesDiffer(a, b); d != "" {
			rep.Violate("C15/roundtrip/cache-differs", "profile read from the cache differs from the primary at "+d, map[string]string{"user": u})
			continue
		}
		if w := wrote[u]; w != nil {
			if d := verifProfilesDiffer(w, a); d != "" {
				rep.Violate("C15/roundtrip/readback-differs", "profile read back differs from what was saved at "+d, map[string]string{"user": u})
				continue
			}
		}
		rep.Count("roundtrips_ok", 1)
		rep.Sample("roundtrip", 2, map[string]interface{}{"user": u, "u2f_tokens": len(a.U2fAuthData), "totp_tokens": len(a.TOTPAuthData), "webauthn": len(a.WebauthnData),
			"pending_totp": a.PendingTOTPSecret != nil, "registration_challenge": a.RegistrationChallenge != nil, "bootstrap_otp": len(a.BootstrapOTP.Sha512Hash) > 0})
	}
	// the real-flow credentials still work after the round trip through the cache (outage below)
	lap("1_round_trips")
	// ------------------------------------------------------------ (2) mirror histories
	nHist, hLen := 40, 10
	if verifThorough() {
		nHist, hLen = 1500, 14
		// the round-trip population (thousands of rows) would be copied by every synchronisation below: keep 40
		side.Exec("delete from user_profile where username like 'gen%' and cast(substr(username, 4) as integer) >= 40")
		env.SyncCache()
	}
	users := []string{"m0", "m1", "m2", "m3", "m4"}
	for h := 0; h < nHist; h++ {
		var trace []string
		for k := 0; k < hLen; k++ {
			u := users[rng.Intn(len(users))]
			switch rng.Intn(8) {
			case 0, 1:
				env.GenerateProfileFrom(real[0].name, u, rng)
				trace = append(trace, "save("+u+")")
			case 2:
				env.Do(verifReq{Method: "POST", Path: "/admin/deleteUser", Form: url.Values{"username": {u}}, Cookies: verifCk(rootCk)}.Build())
				trace = append(trace, "delete("+u+")")
			case 3:
				env.UpsertSigned(u, 1+rng.Intn(2), time.Now().Add(time.Hour).Unix(), fmt.Sprintf("data-%d", rng.Intn(1000)))
				trace = append(trace, "upsert-record("+u+")")
			case 4:
				env.DeleteSigned(u, 1)
				trace = append(trace, "delete-record("+u+")")
			case 5:
				env.UpsertSigned(u, 1, time.Now().Add(-time.Minute).Unix(), "expired-data")
				trace = append(trace, "expire-record("+u+")")
			default:
				if err := env.SyncCache(); err != nil {
					rep.Violate("C15/mirror/sync-error", err.Error(), trace)
					continue
				}
				trace = append(trace, "sync")
				pp, pr := c15Rows(side, true)
				cp, cr := c15Rows(sideC, false)
				// expired records may linger in the cache only if they also linger in the primary? no: the cache holds exactly the unexpired ones
				rep.Eval(fmt.Sprintf("mirror|users=%d|records=%d", len(pp), len(pr)))
				if c15Canon(pp, pr) != c15Canon(cp, cr) {
					rep.Violate("C15/mirror/differs-after-sync", "after a completed synchronisation the cache differs from the primary's users and unexpired records",
						map[string]interface{}{"history": append([]string{}, trace...), "primary": strings.Split(c15Canon(pp, pr), "\n"), "cache": strings.Split(c15Canon(cp, cr), "\n")})
				} else {
					rep.Count("mirror_syncs_equal", 1)
					rep.Sample("mirror", 1, map[string]interface{}{"history": append([]string{}, trace...), "users": len(pp), "records": len(pr)})
				}
			}
		}
	}
	lap("2_mirror_histories")
	// ------------------------------------------------------------ (3) fault at every driver call of a sync
	shapes := [][2]int{{3, 2}}
	if verifThorough() {
		shapes = [][2]int{{0, 0}, {1, 0}, {3, 2}, {6, 5}}
	}
	for _, sh := range shapes {
		side.Exec("delete from user_profile where username like 'f%'")
		side.Exec("delete from expiring_signed_user_data where username like 'f%'")
		env.SyncCache()
		beforeP, beforeR := c15Rows(sideC, false)
		before := c15Canon(beforeP, beforeR)
		for i := 0; i < sh[0]; i++ {
			env.GenerateProfileFrom(real[0].name, fmt.Sprintf("f%d", i), rng)
		}
		for i := 0; i < sh[1]; i++ {
			env.UpsertSigned(fmt.Sprintf("f%d", i), 1, time.Now().Add(time.Hour).Unix(), "x")
		}
		side.Exec("delete from user_profile where username='m0'") // a deletion is part of the difference
		wantP, wantR := c15Rows(side, true)
		want := c15Canon(wantP, wantR)
		// snapshot cache rows fully for restoration
		type prow struct {
			u string
			b []byte
		}
		type rrow struct {
			u    string
			t    int
			j    string
			e, x int64
		}
		var sp []prow
		var sr []rrow
		rows, _ := sideC.Query("select username, profile_data from user_profile")
		for rows.Next() {
			var r prow
			rows.Scan(&r.u, &r.b)
			sp = append(sp, r)
		}
		rows.Close()
		rows, _ = sideC.Query("select username, type, jws_data, expiration_epoch, update_epoch from expiring_signed_user_data")
		for rows.Next() {
			var r rrow
			rows.Scan(&r.u, &r.t, &r.j, &r.e, &r.x)
			sr = append(sr, r)
		}
		rows.Close()
		restore := func() {
			sideC.Exec("delete from user_profile")
			sideC.Exec("delete from expiring_signed_user_data")
			for _, r := range sp {
				sideC.Exec("insert into user_profile(username, profile_data) values(?,?)", r.u, r.b)
			}
			for _, r := range sr {
				sideC.Exec("insert into expiring_signed_user_data(username,type,jws_data,expiration_epoch,update_epoch) values(?,?,?,?,?)", r.u, r.t, r.j, r.e, r.x)
			}
		}
		verifSQL.Record(true)
		verifSQL.ResetSeq(pl)
		verifSQL.ResetSeq(cl)
		if err := env.SyncCache(); err != nil {
			rep.Inconc("clean sync failed: %v", err)
		}
		log := verifSQL.Log()
		verifSQL.Record(false)
		nCalls := map[string]int{}
		for _, o := range log {
			if o.Seq > nCalls[o.DB] {
				nCalls[o.DB] = o.Seq
			}
		}
		gp, gr := c15Rows(sideC, false)
		if c15Canon(gp, gr) != want {
			rep.Violate("C15/faults/clean-sync-wrong", "a clean synchronisation did not produce the primary's content", nil)
		}
		rep.Extra[fmt.Sprintf("driver_calls_per_sync_%dx%d", sh[0], sh[1])] = nCalls
		for _, label := range []string{pl, cl} {
			for k := 1; k <= nCalls[label]; k++ {
				for _, kind := range []string{"error", "cut"} {
					restore()
					verifSQL.ResetSeq(pl)
					verifSQL.ResetSeq(cl)
					var once sync.Once
					cut := false
					var opAt verifSQLOp
					kk := k
					verifSQL.SetHook(label, func(op verifSQLOp) error {
						if cut {
							return errVerifInjected
						}
						if op.Seq == kk {
							once.Do(func() { opAt = op })
							if kind == "cut" {
								cut = true
							}
							return errVerifInjected
						}
						return nil
					})
					err := env.SyncCache()
					verifSQL.SetHook(label, nil)
					ap, ar := c15Rows(sideC, false)
					after := c15Canon(ap, ar)
					where := "primary"
					if label == cl {
						where = "cache"
					}
					outcome := "old"
					if after == want {
						outcome = "new"
					} else if after != before {
						outcome = "MIXTURE"
					}
					rep.Eval(fmt.Sprintf("fault|%s|%s|%s#%d|err=%v|%s", kind, where, opAt.Kind, k, err != nil, outcome))
					rep.Count("fault_injections", 1)
					c := map[string]interface{}{"fault": kind, "connection": where, "driver_call": k, "op": opAt.Kind, "statement": opAt.Text, "sync_error": fmt.Sprint(err),
						"shape": fmt.Sprintf("%d users + %d records", sh[0], sh[1])}
					if outcome == "MIXTURE" {
						c["cache_after"] = strings.Split(after, "\n")
						rep.Violate(fmt.Sprintf("C15/faults/mixture/%s/%s/%s", kind, where, opAt.Kind), "an interrupted synchronisation left the cache neither at its previous nor at its new content", c)
					} else if err == nil && outcome == "old" && before != want {
						rep.Violate(fmt.Sprintf("C15/faults/silent-failure/%s/%s/%s", kind, where, opAt.Kind), "the synchronisation reported success but the cache was not updated", c)
					} else {
						rep.Sample("fault:"+kind+":"+where+":"+opAt.Kind+":"+outcome, 1, c)
					}
				}
			}
		}
		// the same, with the fault while a result set is being read: the connection to the primary (or the cache file)
		// gives out before row n of a SELECT of the synchronisation is fetched, n = 1 .. one past the last row
		for _, label := range []string{pl, cl} {
			restore()
			var rmu sync.Mutex
			fetched := map[string]int{}
			var order []string
			verifSQL.SetRowFault(label, func(q string, n int) error {
				q = verifStmtClass(q) // (the text of one of the SELECTs carries the current second)
				rmu.Lock()
				if _, seen := fetched[q]; !seen {
					order = append(order, q)
				}
				if n > fetched[q] {
					fetched[q] = n
				}
				rmu.Unlock()
				return nil
			})
			if err := env.SyncCache(); err != nil {
				rep.Inconc("clean sync (row census) failed: %v", err)
			}
			verifSQL.SetRowFault(label, nil)
			where := "primary"
			if label == cl {
				where = "cache"
			}
			for _, stmt := range order {
				for n := 1; n <= fetched[stmt]; n++ {
					restore()
					st, nn := stmt, n
					fired := false
					verifSQL.SetRowFault(label, func(q string, k int) error {
						if verifStmtClass(q) == st && k == nn {
							fired = true
							return errVerifInjected
						}
						return nil
					})
					err := env.SyncCache()
					verifSQL.SetRowFault(label, nil)
					if !fired {
						rep.Count("row_fault_not_reached", 1)
						continue
					}
					ap, ar := c15Rows(sideC, false)
					after := c15Canon(ap, ar)
					outcome := "old"
					if after == want {
						outcome = "new"
					} else if after != before {
						outcome = "MIXTURE"
					}
					rep.Eval(fmt.Sprintf("rowfault|%s|%s|row#%d/%d|err=%v|%s", where, stmt, n, fetched[stmt], err != nil, outcome))
					rep.Count("row_fault_injections", 1)
					c := map[string]interface{}{"fault": "row fetch fails", "connection": where, "statement": stmt, "row": n, "rows_fetched_in_clean_sync": fetched[stmt] - 1,
						"sync_error": fmt.Sprint(err), "shape": fmt.Sprintf("%d users + %d records", sh[0], sh[1])}
					if outcome == "MIXTURE" {
						c["cache_after"] = strings.Split(after, "\n")
						rep.Violate("C15/faults/mixture/row-fetch/"+where, "a synchronisation interrupted while reading a result set left the cache neither at its previous nor at its new content", c)
					} else if err == nil && outcome == "old" && before != want {
						rep.Violate("C15/faults/silent-failure/row-fetch/"+where, "the synchronisation reported success but the cache was not updated", c)
					} else {
						rep.Sample("rowfault:"+where+":"+outcome, 1, c)
					}
				}
			}
		}
		restore()
		env.SyncCache()
	}
	rep.Floor("row_fault_injections", 5)
	lap("3_fault_enumeration")
	// ------------------------------------------------------------ (3b) a large installation
	// the same question with 1 300 users (anything that copies in batches or pages has several of them): the
	// synchronisation is interrupted early, in the middle and near the end of the primary's rows and of the cache's
	// writes; old-or-new must hold whatever the size
	{
		env.SyncCache()
		type prow struct {
			u string
			b []byte
		}
		var sp []prow
		rows, _ := sideC.Query("select username, profile_data from user_profile")
		for rows.Next() {
			var r prow
			rows.Scan(&r.u, &r.b)
			sp = append(sp, r)
		}
		rows.Close()
		type rrow struct {
			u    string
			t    int
			j    string
			e, x int64
		}
		var sr []rrow
		rows, _ = sideC.Query("select username, type, jws_data, expiration_epoch, update_epoch from expiring_signed_user_data")
		for rows.Next() {
			var r rrow
			rows.Scan(&r.u, &r.t, &r.j, &r.e, &r.x)
			sr = append(sr, r)
		}
		rows.Close()
		restore := func() {
			tx, _ := sideC.Begin()
			tx.Exec("delete from user_profile")
			tx.Exec("delete from expiring_signed_user_data")
			for _, r := range sp {
				tx.Exec("insert into user_profile(username, profile_data) values(?,?)", r.u, r.b)
			}
			for _, r := range sr {
				tx.Exec("insert into expiring_signed_user_data(username,type,jws_data,expiration_epoch,update_epoch) values(?,?,?,?,?)", r.u, r.t, r.j, r.e, r.x)
			}
			tx.Commit()
		}
		bp, br := c15Rows(sideC, false)
		before := c15Canon(bp, br)
		const nBig = 1300
		{
			var blob []byte
			side.QueryRow("select profile_data from user_profile where username=?", real[0].name).Scan(&blob)
			tx, _ := side.Begin()
			for i := 0; i < nBig; i++ {
				tx.Exec("insert into user_profile(username, profile_data) values(?,?)", fmt.Sprintf("big%05d", i), blob)
			}
			tx.Commit()
		}
		wp, wr := c15Rows(side, true)
		want := c15Canon(wp, wr)
		verifSQL.Record(true)
		verifSQL.ResetSeq(pl)
		verifSQL.ResetSeq(cl)
		if err := env.SyncCache(); err != nil {
			rep.Inconc("large installation: clean sync failed: %v", err)
		}
		nCalls := map[string]int{}
		for _, o := range verifSQL.Log() {
			if o.Seq > nCalls[o.DB] {
				nCalls[o.DB] = o.Seq
			}
		}
		verifSQL.Record(false)
		if gp, gr := c15Rows(sideC, false); c15Canon(gp, gr) != want {
			rep.Violate("C15/faults/clean-sync-wrong/large", "a clean synchronisation of a large installation did not produce the primary's content", nil)
		}
		judge := func(what string, err error, c map[string]interface{}) {
			ap, ar := c15Rows(sideC, false)
			after := c15Canon(ap, ar)
			outcome := "old"
			if after == want {
				outcome = "new"
			} else if after != before {
				outcome = "MIXTURE"
			}
			rep.Eval(fmt.Sprintf("large|%s|err=%v|%s", what, err != nil, outcome))
			rep.Count("large_installation_injections", 1)
			c["sync_error"], c["users_in_primary"], c["users_in_cache_after"] = fmt.Sprint(err), len(wp), len(ap)
			if outcome == "MIXTURE" {
				rep.Violate("C15/faults/mixture/large-installation/"+what, "an interrupted synchronisation of a large installation left the cache neither at its previous nor at its new content", c)
			} else if err == nil && outcome == "old" {
				rep.Violate("C15/faults/silent-failure/large-installation/"+what, "the synchronisation reported success but the cache was not updated", c)
			}
		}
		for _, at := range []int{3, nBig / 3, nBig/2 + 7, nBig - 1, nBig + len(sp)/2} {
			restore()
			atRow := at
			verifSQL.SetRowFault(pl, func(q string, k int) error {
				if verifStmtClass(q) == "select:user_profile" && k == atRow {
					return errVerifInjected
				}
				return nil
			})
			err := env.SyncCache()
			verifSQL.SetRowFault(pl, nil)
			judge("primary-row-fetch", err, map[string]interface{}{"fault": "row fetch fails on the primary", "row": atRow})
		}
		for _, frac := range []int{4, 2, 1} {
			restore()
			verifSQL.ResetSeq(pl)
			verifSQL.ResetSeq(cl)
			kk := nCalls[cl] - nCalls[cl]/frac/2 - 5
			if frac == 1 {
				kk = nCalls[cl] - 2
			}
			cut := false
			verifSQL.SetHook(cl, func(op verifSQLOp) error {
				if cut || op.Seq == kk {
					cut = true
					return errVerifInjected
				}
				return nil
			})
			err := env.SyncCache()
			verifSQL.SetHook(cl, nil)
			judge("cache-connection-cut", err, map[string]interface{}{"fault": "cache connection cut", "driver_call": kk, "driver_calls_in_clean_sync": nCalls[cl]})
		}
		side.Exec("delete from user_profile where username like 'big%'")
		restore()
		env.SyncCache()
		rep.Floor("large_installation_injections", 6)
	}
	lap("3b_large_installation")
	// ------------------------------------------------------------ (4) outage
	gate := newVerifOutage()
	verifSQL.SetHook(pl, gate.Hook)
	env.SyncCache()
	vip.SetOTP(real[0].name, 424242)
	e0 := real[0]
	env.SetOutage(gate, true)
	trust, _ := verifPublishedTrust(env)
	// authentication continues from the cache, whether the primary does not answer (hang) or refuses at once (fail-fast)
	authContinues := func(mode string) {
		ck, r := verifLogin(env, e0.name, "pw-"+e0.name)
		rep.Eval(fmt.Sprintf("outage|%s|login|%d", mode, r.Code))
		if ck == "" {
			rep.Violate("C15/outage/login-refused/"+mode, "password login does not work while the primary store is unreachable", map[string]int{"status": r.Code})
		} else {
			rep.Count("outage_auth_ok", 1)
			// (offered after the two-second spacing of code evaluations and, if refused, after longer pauses: a tree
			// that spaces evaluations further apart is not one on which second-factor checks stop during an outage)
			ok := false
			for _, pause := range []time.Duration{2100 * time.Millisecond, 3100 * time.Millisecond, 6100 * time.Millisecond} {
				time.Sleep(pause)
				r = env.Do(verifReq{Method: "POST", Path: "/api/v0/TOTPAuth", Form: url.Values{"OTP": {verifTOTPCode(e0.secret, time.Now())}}, Cookies: verifCk(ck)}.Build())
				if c := r.Cookie("auth_cookie"); c != nil {
					if _, bits, v := verifCookieInfo(c.Value, trust.Keys); v && bits&verifBit["TOTP"] != 0 {
						ok = true
					}
				}
				if ok {
					break
				}
			}
			rep.Eval(fmt.Sprintf("outage|%s|totp|%v", mode, ok))
			if !ok {
				rep.Violate("C15/outage/totp-refused/"+mode, "TOTP verification does not continue from the cache", map[string]int{"status": r.Code})
			} else {
				rep.Count("outage_auth_ok", 1)
			}
			req, r2 := verifU2FBegin(env, ck)
			if req == nil {
				rep.Violate("C15/outage/u2f-begin-refused/"+mode, "U2F sign request does not continue from the cache", map[string]int{"status": r2.Code})
			} else {
				r3 := verifU2FFinish(env, ck, e0.tok.SignResponse(req.AppID, req.Challenge))
				rep.Eval(fmt.Sprintf("outage|%s|u2f|%d", mode, r3.Code))
				if r3.Code != 200 {
					rep.Violate("C15/outage/u2f-refused/"+mode, "U2F verification does not continue from the cache", map[string]int{"status": r3.Code})
				} else {
					rep.Count("outage_auth_ok", 1)
				}
			}
		}
	}
	authContinues("hang")
	gate.mu.Lock()
	gate.FailFast = true
	gate.mu.Unlock()
	authContinues("fail-fast")
	gate.mu.Lock()
	gate.FailFast = false
	gate.mu.Unlock()
	// every mutating route: >= 400, no profile write attempted
	adminCk := verifMint(verifSessionClaims("root1", verifBit["password"]|verifBit["U2F"], time.Now().Add(-time.Minute), 16*time.Hour), verifSigner("ca_rsa2048"))
	userCk := verifMint(verifSessionClaims(e0.name, verifBit["password"]|verifBit["U2F"], time.Now().Add(-time.Minute), 16*time.Hour), verifSigner("ca_rsa2048"))
	v := env.ProfileView(e0.name)
	var u2fIdx, totpIdx int64
	for i := range v.U2F {
		u2fIdx = i
	}
	for i := range v.TOTP {
		totpIdx = i
	}
	regBody, _ := jsonMarshal(newVerifU2FToken().RegisterResponse(verifIssuer, "AAAA"))
	mutating := []struct {
		name string
		q    verifReq
		ck   string
	}{
		{"manageU2FToken:Delete", verifReq{Method: "POST", Path: "/api/v0/manageU2FToken", Form: url.Values{"username": {e0.name}, "index": {fmt.Sprint(u2fIdx)}, "action": {"Delete"}}}, userCk},
		{"manageU2FToken:Disable", verifReq{Method: "POST", Path: "/api/v0/manageU2FToken", Form: url.Values{"username": {e0.name}, "index": {fmt.Sprint(u2fIdx)}, "action": {"Disable"}}}, userCk},
		{"manageU2FToken:Update", verifReq{Method: "POST", Path: "/api/v0/manageU2FToken", Form: url.Values{"username": {e0.name}, "index": {fmt.Sprint(u2fIdx)}, "action": {"Update"}, "name": {"n"}}}, userCk},
		{"manageTOTPToken:Delete", verifReq{Method: "POST", Path: "/api/v0/manageTOTPToken", Form: url.Values{"username": {e0.name}, "index": {fmt.Sprint(totpIdx)}, "action": {"Delete"}}}, userCk},
		{"manageTOTPToken:Enable", verifReq{Method: "POST", Path: "/api/v0/manageTOTPToken", Form: url.Values{"username": {e0.name}, "index": {fmt.Sprint(totpIdx)}, "action": {"Enable"}}}, userCk},
		{"manageU2FToken:admin-other", verifReq{Method: "POST", Path: "/api/v0/manageU2FToken", Form: url.Values{"username": {e0.name}, "index": {fmt.Sprint(u2fIdx)}, "action": {"Delete"}}}, adminCk},
		{"u2f-register-begin", verifReq{Method: "GET", Path: "/u2f/RegisterRequest/" + e0.name}, userCk},
		{"u2f-register-finish", verifReq{Method: "POST", Path: "/u2f/RegisterResponse/" + e0.name, RawBody: regBody, RawCT: "application/json"}, userCk},
		{"webauthn-register-begin", verifReq{Method: "GET", Path: "/webauthn/RegisterRequest/" + e0.name}, userCk},
		{"webauthn-register-finish", verifReq{Method: "POST", Path: "/webauthn/RegisterFinish/" + e0.name, RawBody: []byte(`{"id":"AAAA","rawId":"AAAA","type":"public-key","response":{"attestationObject":"AAAA","clientDataJSON":"e30"}}`), RawCT: "application/json"}, userCk},
		{"totp-generate", verifReq{Method: "POST", Path: "/totp/GenerateNew/"}, userCk},
		{"totp-validate-new", verifReq{Method: "POST", Path: "/totp/ValidateNew/", Form: url.Values{"OTP": {"123456"}}}, userCk},
		{"add-user", verifReq{Method: "POST", Path: "/admin/addUser", Form: url.Values{"username": {"outage-new"}}}, adminCk},
		{"bootstrap-otp-issue", verifReq{Method: "POST", Path: "/admin/newBoostrapOTP", Form: url.Values{"username": {"bsuser"}}}, adminCk},
		{"bootstrap-otp-auth", verifReq{Method: "POST", Path: "/api/v0/bootstrapOtpAuth", Form: url.Values{"OTP": {"x"}}}, verifMint(verifSessionClaims("bsuser", verifBit["password"], time.Now().Add(-time.Minute), 16*time.Hour), verifSigner("ca_rsa2048"))},
		{"delete-user", verifReq{Method: "POST", Path: "/admin/deleteUser", Form: url.Values{"username": {"m1"}}}, adminCk},
	}
	primaryBefore := c04DBDigest(side)
	// (twice: the primary not answering at all, and the primary accepting the statement but failing the read at once -
	// a profile obtained in either situation is not the primary's current copy and must not be written back)
	for _, omode := range []string{"hang", "read-fails-at-once"} {
		gate.mu.Lock()
		gate.QueryError = omode == "read-fails-at-once"
		gate.mu.Unlock()
		for _, mtd := range mutating {
			gate.mu.Lock()
			gate.Writes = nil
			gate.mu.Unlock()
			if omode != "hang" {
				mtd.name += "(" + omode + ")"
			}
			q := mtd.q
			q.Cookies = verifCk(mtd.ck)
			done := make(chan *verifResp, 1)
			go func() { done <- env.Do(q.Build()) }()
			var resp *verifResp
			select {
			case resp = <-done:
			case <-time.After(20 * time.Second):
				rep.Inconc("mutating route %s did not answer within 20 s during the outage", mtd.name)
				continue
			}
			writes := gate.WriteAttempts()
			var profileWrites []string
			for _, w := range writes {
				profileWrites = append(profileWrites, w.Kind+":"+w.Text)
			}
			rep.Eval(fmt.Sprintf("outage|%s|%d|writes=%d", mtd.name, resp.Code, len(writes)))
			c := map[string]interface{}{"route": mtd.name, "status": resp.Code, "write_attempts_on_primary": profileWrites}
			rep.Count("outage_mutations_checked", 1)
			switch {
			case resp.Code < 400:
				rep.Violate("C15/outage/mutation-not-refused/"+mtd.name, "a profile-changing operation was not refused while the primary store was unreachable", c)
			case len(writes) > 0 && !strings.HasPrefix(mtd.name, "delete-user"):
				rep.Violate("C15/outage/write-attempted/"+mtd.name, "a handler that read the profile from the cache went on to write to the primary store (would overwrite newer data once the store is back)", c)
			default:
				rep.Sample("outage-refused:"+mtd.name, 1, c)
			}
		}
	}
	gate.mu.Lock()
	gate.QueryError = false
	gate.mu.Unlock()
	env.SetOutage(gate, false)
	verifSQL.SetHook(pl, nil)
	if c04DBDigest(side) != primaryBefore {
		rep.Violate("C15/outage/primary-changed", "the primary store changed during the outage window", nil)
	}
	lap("4_outage")
	c15SelfService(rep)
	lap("5_self_service")
	rep.Floor("roundtrips_ok", 30)
	rep.Floor("mirror_syncs_equal", 30)
	rep.Floor("fault_injections", 40)
	rep.Floor("outage_auth_ok", 6)
	rep.Floor("outage_mutations_checked", 28)
	rep.Floor("selfservice_live", 1)
	rep.Floor("outage_selfservice_logins_checked", 2)
}

// c15SelfService: a password login is itself a profile-changing operation when self-service Bootstrap OTPs are
// enabled (a user without second factor gets an OTP stored and mailed).  With the primary reachable this must work
// (positive control, so the scenario is known to be live); during an outage the login continues from the cache but
// must not attempt the profile write.  The operator's mail relay is a fake SMTP server named in the configuration.
func c15SelfService(rep *verifReport) {
	smtp, err := newVerifFakeSMTP()
	if err != nil {
		rep.Inconc("self-service: smtp: %v", err)
		return
	}
	defer smtp.L.Close()
	env, err := verifNewEnv(verifStateOpts{Name: "c15-selfservice", AllowedCerts: []string{"U2F", "TOTP"}, AllowedWebUI: []string{"password"}, AdminUsers: []string{"root1"},
		EnableTOTP: true, EnableBootstrap: true, Users: map[string]string{"x": "y"},
		ExtraBase: "    allow_self_service_bootstrap_otp: true\n",
		ExtraTop:  fmt.Sprintf("email:\n    domain: \"mail.example.com\"\n    smtp_server: %q\n", smtp.Addr())})
	if err != nil {
		rep.Inconc("self-service env: %v", err)
		return
	}
	env.SetPasswordChecker(verifPWFunc(func(u string, p []byte) (bool, error) { return string(p) == "pw-"+u, nil }))
	pl, _, err := env.HookDBs()
	if err != nil {
		rep.Inconc("self-service: hook: %v", err)
		return
	}
	side, _ := sql.Open("sqlite3", env.PrimaryDBPath())
	defer side.Close()
	// positive control with the primary reachable
	ckA, rA := verifLogin(env, "ssa", "pw-ssa")
	vA := env.ProfileView("ssa")
	rep.Eval(fmt.Sprintf("selfservice|online|login=%d|mails=%d|otp-stored=%v", rA.Code, smtp.Count(), vA.BootstrapOTP))
	if ckA != "" && smtp.Count() >= 1 && vA.BootstrapOTP {
		rep.Count("selfservice_live", 1)
	} else {
		rep.Obs("self-service bootstrap OTP not observed online (login=%d mails=%d stored=%v)", rA.Code, smtp.Count(), vA.BootstrapOTP)
	}
	rootCk, _ := verifLogin(env, "root1", "pw-root1")
	verifAdminAddUser(env, rootCk, "ssc") // profile exists, no second factor, no OTP
	env.SyncCache()
	gate := newVerifOutage()
	verifSQL.SetHook(pl, gate.Hook)
	before := c04DBDigest(side)
	env.SetOutage(gate, true)
	for _, u := range []string{"ssb", "ssc", "ssb"} { // ssb has never been seen: the cache answers with an empty profile
		gate.mu.Lock()
		gate.Writes = nil
		gate.mu.Unlock()
		m0 := smtp.Count()
		type res struct {
			ck string
			r  *verifResp
		}
		done := make(chan res, 1)
		go func() { ck, r := verifLogin(env, u, "pw-"+u); done <- res{ck, r} }()
		var got res
		select {
		case got = <-done:
		case <-time.After(20 * time.Second):
			rep.Inconc("self-service: login of %s did not answer within 20 s during the outage", u)
			continue
		}
		writes := gate.WriteAttempts()
		var ws []string
		for _, w := range writes {
			ws = append(ws, w.Kind+":"+w.Text)
		}
		rep.Eval(fmt.Sprintf("outage|selfservice-login|%d|writes=%d|mails=%d", got.r.Code, len(writes), smtp.Count()-m0))
		rep.Count("outage_selfservice_logins_checked", 1)
		c := map[string]interface{}{"user": u, "status": got.r.Code, "write_attempts_on_primary": ws, "mails_sent": smtp.Count() - m0}
		switch {
		case got.ck == "":
			rep.Violate("C15/outage/login-refused/self-service", "password login does not work while the primary store is unreachable", c)
		case len(writes) > 0:
			rep.Violate("C15/outage/write-attempted/login-self-service-otp", "a login served from the cache went on to store a self-service Bootstrap OTP in the primary (a profile change during the outage, from a stale copy)", c)
		default:
			rep.Sample("outage-selfservice-login", 1, c)
			if smtp.Count() != m0 {
				rep.Obs("a Bootstrap OTP mail was sent during the outage although nothing was stored (user %s)", u)
			}
		}
	}
	env.SetOutage(gate, false)
	verifSQL.SetHook(pl, nil)
	if c04DBDigest(side) != before {
		rep.Violate("C15/outage/primary-changed/self-service", "the primary store changed during the outage window", nil)
	}
}
