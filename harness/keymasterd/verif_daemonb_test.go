package main

// Engine B parts: the REAL keymasterd binary (built from /repo's working tree by
// the driver, with the race detector where registered), started on an
// operator-style configuration, spoken to over real TLS.  They reach what the
// in-process engine cannot: main()'s listeners (the service port opens only
// after the unseal), the TLS configuration (client-certificate verification,
// the client-CA pool main() assembles), the logging / metrics wrappers around
// the muxes, and every goroutine main() starts.
//
//   C06 (TestVerifC06Daemon): certificate credentials at the TLS boundary.
//   C09 (TestVerifC09Daemon): sealed daemon - closed service port, nothing
//       signed on the admin port, injections, one transition, then service.
//   C11 (TestVerifC11Daemon): automation certificates for three requestor key
//       types presented from inside / outside their netblock (source address
//       bound by the client), Ed25519 CA configured.
//   C16 (TestVerifC16Daemon): concurrent real-HTTPS workload against the
//       -race build; the daemon's own race log is classified.

import (
	"crypto"
	"crypto/ecdsa"
	"crypto/ed25519"
	"crypto/elliptic"
	"crypto/rand"
	"crypto/rsa"
	"crypto/tls"
	"crypto/x509"
	"crypto/x509/pkix"
	"encoding/pem"
	"fmt"
	"io"
	"math/big"
	"net"
	"net/http"
	"net/url"
	"os"
	"strings"
	"sync"
	"sync/atomic"
	"testing"
	"time"
)

// dbClient is an HTTPS client for daemon d presenting cert (may be nil).
func dbClient(d *verifDaemon, cert *tls.Certificate) *http.Client {
	cfg := &tls.Config{RootCAs: d.RootPool(), ServerName: "localhost"}
	if cert != nil {
		c := *cert
		// present it whatever CAs the server names (a hostile client would)
		cfg.GetClientCertificate = func(*tls.CertificateRequestInfo) (*tls.Certificate, error) { return &c, nil }
	}
	return &http.Client{
		Transport:     &http.Transport{TLSClientConfig: cfg, DisableKeepAlives: true},
		CheckRedirect: func(*http.Request, []*http.Request) error { return http.ErrUseLastResponse },
		Timeout:       20 * time.Second,
	}
}

// dbSend sends the request described by q (the in-process builders are reused)
// to the daemon's service (admin=false) or admin port.
func dbSend(d *verifDaemon, c *http.Client, q verifReq, admin bool) (*verifResp, error) {
	req := q.Build()
	port := d.ServicePort
	if admin {
		port = d.AdminPort
	}
	req.URL.Scheme, req.URL.Host = "https", fmt.Sprintf("localhost:%d", port)
	req.Host, req.RequestURI, req.RemoteAddr, req.TLS = "", "", "", nil
	r, err := c.Do(req)
	if err != nil {
		return nil, err
	}
	defer r.Body.Close()
	body, _ := io.ReadAll(io.LimitReader(r.Body, 4<<20))
	return &verifResp{Code: r.StatusCode, Header: r.Header, Body: body, Cookies: r.Cookies()}, nil
}

// dbEnv lets the in-process flows (login, enrolment, token ceremonies) run against the daemon's service port.
type dbEnv struct{ d *verifDaemon }

func (e dbEnv) Do(req *http.Request) *verifResp {
	req.URL.Scheme, req.URL.Host = "https", fmt.Sprintf("localhost:%d", e.d.ServicePort)
	req.Host, req.RequestURI, req.RemoteAddr, req.TLS = "", "", "", nil
	r, err := dbClient(e.d, nil).Do(req)
	if err != nil {
		return &verifResp{Code: 0, Header: http.Header{}, Panic: ""}
	}
	defer r.Body.Close()
	body, _ := io.ReadAll(io.LimitReader(r.Body, 4<<20))
	return &verifResp{Code: r.StatusCode, Header: r.Header, Body: body, Cookies: r.Cookies()}
}

func dbLogin(d *verifDaemon, user, pw string) (string, error) {
	r, err := dbSend(d, dbClient(d, nil), verifReq{Method: "POST", Path: "/api/v0/login", Form: url.Values{"username": {user}, "password": {pw}}}, false)
	if err != nil {
		return "", err
	}
	if c := r.Cookie("auth_cookie"); c != nil && r.Code == 200 {
		return c.Value, nil
	}
	return "", fmt.Errorf("login %s: status %d", user, r.Code)
}

// dbIssueX509 obtains a certificate for key through the daemon's own issuing route.
func dbIssueX509(d *verifDaemon, cookie, user string, key crypto.Signer) (*x509.Certificate, error) {
	q := verifCertReq(user, "x509", verifPKIXPEM(key.Public()), "1h", nil)
	q.Cookies = verifCk(cookie)
	r, err := dbSend(d, dbClient(d, nil), q, false)
	if err != nil {
		return nil, err
	}
	if r.Code != 200 {
		return nil, fmt.Errorf("certgen %s: status %d %s", user, r.Code, firstLines(string(r.Body), 1))
	}
	return verifParseX509PEM(r.Body)
}

// dbPublishedCA returns the published CA certificate that carries the given key (the daemon publishes one per CA key).
func dbPublishedCA(d *verifDaemon, want crypto.PublicKey) (*x509.Certificate, error) {
	r, err := dbSend(d, dbClient(d, nil), verifReq{Path: "/public/x509ca"}, false)
	if err != nil {
		return nil, err
	}
	rest := r.Body
	n := 0
	for {
		var b *pem.Block
		b, rest = pem.Decode(rest)
		if b == nil {
			break
		}
		c, err := x509.ParseCertificate(b.Bytes)
		if err != nil {
			continue
		}
		n++
		if verifPubEqual(c.PublicKey, want) {
			return c, nil
		}
	}
	return nil, fmt.Errorf("/public/x509ca: status %d, %d certificates, none with the expected key", r.Code, n)
}

func dbTLSCert(leaf *x509.Certificate, key crypto.Signer, chain ...*x509.Certificate) *tls.Certificate {
	c := &tls.Certificate{Certificate: [][]byte{leaf.Raw}, PrivateKey: key, Leaf: leaf}
	for _, x := range chain {
		c.Certificate = append(c.Certificate, x.Raw)
	}
	return c
}

// dbSelfCA makes a CA certificate with the given subject for signer.
func dbSelfCA(subject pkix.Name, signer crypto.Signer) *x509.Certificate {
	tmpl := &x509.Certificate{SerialNumber: big.NewInt(time.Now().UnixNano()), Subject: subject, NotBefore: time.Now().Add(-time.Hour),
		NotAfter: time.Now().Add(240 * time.Hour), KeyUsage: x509.KeyUsageCertSign | x509.KeyUsageDigitalSignature, IsCA: true, BasicConstraintsValid: true}
	der, err := x509.CreateCertificate(rand.Reader, tmpl, tmpl, signer.Public(), signer)
	if err != nil {
		panic(err)
	}
	c, _ := x509.ParseCertificate(der)
	return c
}

func dbPortOpen(port int) bool {
	c, err := net.DialTimeout("tcp", fmt.Sprintf("127.0.0.1:%d", port), 500*time.Millisecond)
	if err != nil {
		return false
	}
	c.Close()
	return true
}

func dbDaemonTail(d *verifDaemon) string {
	b, _ := os.ReadFile(d.LogPath)
	s := string(b)
	if len(s) > 1200 {
		s = s[len(s)-1200:]
	}
	return s
}

// ------------------------------------------------------------------- C06

func TestVerifC06Daemon(t *testing.T) {
	rep := newVerifReport("C06", "(engine B) real keymasterd binary over real TLS: administrator-only routes (user list, add user) requested with no cookie and a TLS client certificate that is: none / genuinely issued by this daemon to an administrator / to a non-administrator / signed with the CA key (valid, expired, not yet valid) / signed by a foreign CA carrying the real CA's subject / self-signed / signed by the configured client CA / genuine but sent with another key's handshake impossible; honoured (200 + effect) only for a currently valid certificate under the daemon's CA key naming an administrator; class = (route, certificate variant, outcome)")
	defer rep.Finish()
	d, err := verifStartDaemon(verifDaemonOpts{Name: "c06b", Users: map[string]string{"root1": "root1-pw", "alice": "alice-pw"},
		AllowedCerts: []string{"password"}, AllowedWebUI: []string{"password"}, AdminUsers: []string{"root1"}, ClientCAPEM: verifClientCACertPEM()})
	if err != nil {
		rep.Inconc("daemon: %v", err)
		return
	}
	defer d.Stop()
	rootCk, err1 := dbLogin(d, "root1", "root1-pw")
	aliceCk, err2 := dbLogin(d, "alice", "alice-pw")
	if err1 != nil || err2 != nil {
		rep.Inconc("login over real TLS failed: %v %v\n%s", err1, err2, dbDaemonTail(d))
		return
	}
	rootKey, _ := ecdsa.GenerateKey(elliptic.P256(), rand.Reader)
	aliceKey, _ := ecdsa.GenerateKey(elliptic.P256(), rand.Reader)
	rootCert, err1 := dbIssueX509(d, rootCk, "root1", rootKey)
	aliceCert, err2 := dbIssueX509(d, aliceCk, "alice", aliceKey)
	ca, err3 := dbPublishedCA(d, verifSigner("ca_rsa2048").Public())
	if err1 != nil || err2 != nil || err3 != nil {
		rep.Inconc("issuing the genuine certificates failed: %v %v %v", err1, err2, err3)
		return
	}
	caKey := verifSigner("ca_rsa2048")
	foreign := verifSigner("foreign_rsa2048")
	foreignCA := dbSelfCA(ca.Subject, foreign) // same subject as the real CA, other key
	k := func() *ecdsa.PrivateKey { x, _ := ecdsa.GenerateKey(elliptic.P256(), rand.Reader); return x }
	now := time.Now()
	type variant struct {
		name   string
		cert   *tls.Certificate
		legit  bool // a currently valid certificate under the daemon's CA key naming an administrator
		reason string
	}
	mk := func(cn string, parent *x509.Certificate, signer crypto.Signer, nb, na time.Time, chain ...*x509.Certificate) *tls.Certificate {
		key := k()
		return dbTLSCert(verifMakeLeaf(cn, key.Public(), parent, signer, nb, na, nil), key, chain...)
	}
	selfKey := k()
	selfTmpl := &x509.Certificate{SerialNumber: big.NewInt(99), Subject: pkix.Name{CommonName: "root1"}, NotBefore: now.Add(-time.Hour), NotAfter: now.Add(time.Hour),
		KeyUsage: x509.KeyUsageDigitalSignature, ExtKeyUsage: []x509.ExtKeyUsage{x509.ExtKeyUsageClientAuth}, BasicConstraintsValid: true}
	selfDer, _ := x509.CreateCertificate(rand.Reader, selfTmpl, selfTmpl, selfKey.Public(), selfKey)
	selfLeaf, _ := x509.ParseCertificate(selfDer)
	variants := []variant{
		{"none", nil, false, ""},
		{"genuine-admin", dbTLSCert(rootCert, rootKey), true, ""},
		{"genuine-admin-with-chain", dbTLSCert(rootCert, rootKey, ca), true, ""},
		{"genuine-non-admin", dbTLSCert(aliceCert, aliceKey), false, "the certificate names a non-administrator"},
		{"ca-key-valid-admin", mk("root1", ca, caKey, now.Add(-time.Hour), now.Add(time.Hour)), true, ""},
		{"ca-key-expired-admin", mk("root1", ca, caKey, now.Add(-48*time.Hour), now.Add(-time.Hour)), false, "the certificate has expired"},
		{"ca-key-not-yet-valid-admin", mk("root1", ca, caKey, now.Add(time.Hour), now.Add(2*time.Hour)), false, "the certificate is not yet valid"},
		{"foreign-ca-same-subject-admin", mk("root1", foreignCA, foreign, now.Add(-time.Hour), now.Add(time.Hour)), false, "signed by a foreign key under the CA's name"},
		{"foreign-ca-same-subject-admin-with-chain", mk("root1", foreignCA, foreign, now.Add(-time.Hour), now.Add(time.Hour), foreignCA), false, "signed by a foreign key under the CA's name"},
		{"self-signed-admin", dbTLSCert(selfLeaf, selfKey), false, "self-signed"},
		{"client-ca-signed-admin", mk("root1", verifClientCACert(), verifSigner("clientca_rsa2048"), now.Add(-time.Hour), now.Add(time.Hour)), false, "verified under the client CA, which is not the keymaster key"},
		{"genuine-non-admin-cert-as-intermediate", mk("root1", aliceCert, aliceKey, now.Add(-time.Hour), now.Add(time.Hour), aliceCert), false, "issued by an end-entity certificate"},
	}
	listUsers := func(c *tls.Certificate) (*verifResp, error) {
		return dbSend(d, dbClient(d, c), verifReq{Method: "GET", Path: "/users/"}, false)
	}
	userListed := func(name string) (bool, error) {
		r, err := dbSend(d, dbClient(d, nil), verifReq{Method: "GET", Path: "/users/", Cookies: verifCk(rootCk)}, false)
		if err != nil || r.Code != 200 {
			return false, fmt.Errorf("reference listing failed: %v", err)
		}
		return strings.Contains(string(r.Body), name), nil
	}
	rounds := 1
	if verifThorough() {
		rounds = 6
	}
	for round := 0; round < rounds; round++ {
		for vi, v := range variants {
			// (1) read of administrator-only data
			r, err := listUsers(v.cert)
			outcome := "handshake-or-transport-error"
			honoured := false
			if err == nil {
				outcome = fmt.Sprint(r.Code)
				honoured = r.Code == 200
			}
			rep.Eval(fmt.Sprintf("daemon|users-list|%s|%s", v.name, outcome))
			c := map[string]interface{}{"route": "GET /users/", "client_certificate": v.name, "outcome": outcome}
			if err != nil {
				c["error"] = firstLines(err.Error(), 1)
			}
			switch {
			case honoured && !v.legit:
				rep.Violate("C06/daemon/certificate-honoured/users-list/"+v.name, "administrator-only data was served to a TLS client certificate that must not authenticate an administrator: "+v.reason, c)
			case !honoured && v.legit:
				rep.Violate("C06/daemon/genuine-certificate-refused/users-list/"+v.name, "a currently valid certificate issued under the daemon's CA key to an administrator was refused", c)
			default:
				rep.Count(fmt.Sprintf("daemon_cert_probes_honoured_%v", honoured), 1)
				rep.Sample("daemon-cert:"+v.name, 1, c)
			}
			// (2) state change: add a user
			newUser := fmt.Sprintf("made-by-%d-%d", round, vi)
			r2, err2 := dbSend(d, dbClient(d, v.cert), verifReq{Method: "POST", Path: "/admin/addUser", Form: url.Values{"username": {newUser}}}, false)
			outcome2 := "handshake-or-transport-error"
			if err2 == nil {
				outcome2 = fmt.Sprint(r2.Code)
			}
			exists, lerr := userListed(newUser)
			if lerr != nil {
				rep.Inconc("%v", lerr)
				continue
			}
			rep.Eval(fmt.Sprintf("daemon|add-user|%s|%s|effect=%v", v.name, outcome2, exists))
			c2 := map[string]interface{}{"route": "POST /admin/addUser", "client_certificate": v.name, "outcome": outcome2, "user_created": exists}
			switch {
			case exists && !v.legit:
				rep.Violate("C06/daemon/certificate-honoured/add-user/"+v.name, "a user was created on the strength of a TLS client certificate that must not authenticate an administrator: "+v.reason, c2)
			case !exists && v.legit:
				rep.Violate("C06/daemon/genuine-certificate-refused/add-user/"+v.name, "a currently valid administrator certificate could not add a user", c2)
			default:
				rep.Count(fmt.Sprintf("daemon_cert_effects_%v", exists), 1)
			}
		}
	}
	// protocol floor of main()'s TLS configuration (observation only: not part of the property's statement)
	{
		cfg := &tls.Config{RootCAs: d.RootPool(), ServerName: "localhost", MaxVersion: tls.VersionTLS11, MinVersion: tls.VersionTLS10}
		conn, err := tls.DialWithDialer(&net.Dialer{Timeout: 5 * time.Second}, "tcp", fmt.Sprintf("127.0.0.1:%d", d.ServicePort), cfg)
		if err == nil {
			conn.Close()
			rep.Obs("the service port completed a TLS 1.1 handshake (main() asks for >= 1.2)")
		}
	}
	rep.Floor("daemon_cert_probes_honoured_true", 2)
	rep.Floor("daemon_cert_probes_honoured_false", 6)
	rep.Floor("daemon_cert_effects_true", 2)
	rep.Floor("daemon_cert_effects_false", 6)
}

// ------------------------------------------------------------------- C09

func TestVerifC09Daemon(t *testing.T) {
	rep := newVerifReport("C09", "(engine B) real sealed keymasterd binary: the service port must stay closed and nothing signed may come from the admin port (every admin route, GET/POST, with and without a client certificate) while sealed; injections without certificate / with a foreign certificate / with a wrong passphrase leave it sealed; K concurrent correct injections over real TLS: exactly one succeeds; afterwards the service port opens and login, SSH and X.509 issuance work under the CA key; class = (phase, probe, outcome)")
	defer rep.Finish()
	const pass = "correct horse battery staple"
	d, err := verifStartDaemon(verifDaemonOpts{Name: "c09b", Users: map[string]string{"alice": "alice-pw"}, AllowedCerts: []string{"password"}, AllowedWebUI: []string{"password"},
		Sealed: true, Passphrase: pass, Ed25519: true, ClientCAPEM: verifClientCACertPEM()})
	if err != nil {
		rep.Inconc("daemon: %v", err)
		return
	}
	defer d.Stop()
	now := time.Now()
	opKey, _ := ecdsa.GenerateKey(elliptic.P256(), rand.Reader)
	opCert := dbTLSCert(verifMakeLeaf("operator", opKey.Public(), verifClientCACert(), verifSigner("clientca_rsa2048"), now.Add(-time.Hour), now.Add(time.Hour), nil), opKey)
	foreign := verifSigner("foreign_rsa2048")
	foreignCA := dbSelfCA(verifClientCACert().Subject, foreign)
	fKey, _ := ecdsa.GenerateKey(elliptic.P256(), rand.Reader)
	foreignCert := dbTLSCert(verifMakeLeaf("operator", fKey.Public(), foreignCA, foreign, now.Add(-time.Hour), now.Add(time.Hour), nil), fKey)
	sealedChecks := func(phase string) {
		// service port closed
		open := 0
		for i := 0; i < 10; i++ {
			if dbPortOpen(d.ServicePort) {
				open++
			}
		}
		rep.Eval(fmt.Sprintf("daemon|%s|service-port-open=%v", phase, open > 0))
		rep.Count("sealed_service_port_probes", 10)
		if open > 0 {
			rep.Violate("C09/daemon/service-port-open-while-sealed/"+phase, "the service port accepted connections while the daemon was sealed", map[string]int{"accepted_of_10": open})
		}
		// nothing signed on the admin port
		paths := []string{"/", "/readyz", "/healthz", "/metrics", "/prometheus_metrics", "/admin/inject", "/public/x509ca", "/public/sshca", "/public/loginForm", "/certgen/alice", "/api/v0/login",
			"/idp/oauth2/jwks", "/idp/oauth2/token", "/.well-known/openid-configuration", "/status", "/logs/dump", "/eventmon/v0"}
		for _, p := range paths {
			for _, method := range []string{"GET", "POST"} {
				for ci, cert := range []*tls.Certificate{nil, opCert} {
					q := verifReq{Method: method, Path: p}
					if method == "POST" {
						q.Form = url.Values{"username": {"alice"}, "password": {"alice-pw"}}
					}
					r, err := dbSend(d, dbClient(d, cert), q, true)
					if err != nil {
						rep.Eval(fmt.Sprintf("daemon|%s|admin-port|%s|error", phase, p))
						continue
					}
					sm := verifSignedMaterial(r)
					rep.Eval(fmt.Sprintf("daemon|%s|admin-port|%s|%s|cert=%d|%d|signed=%v", phase, p, method, ci, r.Code/100, len(sm) > 0))
					rep.Count("sealed_admin_probes", 1)
					if len(sm) > 0 {
						rep.Violate("C09/daemon/signed-while-sealed"+p, "the sealed daemon returned signed material on its admin port", map[string]interface{}{"path": p, "method": method, "status": r.Code, "signed": sm})
					}
					if p == "/readyz" && r.Code == 200 {
						rep.Violate("C09/daemon/ready-while-sealed", "the sealed daemon reports ready", map[string]int{"status": r.Code})
					}
				}
			}
		}
	}
	sealedChecks("sealed")
	inject := func(cert *tls.Certificate, passphrase string) (int, error) {
		r, err := dbSend(d, dbClient(d, cert), verifReq{Method: "POST", Path: "/admin/inject", Form: url.Values{"ssh_ca_password": {passphrase}}}, true)
		if err != nil {
			return 0, err
		}
		return r.Code, nil
	}
	for _, bad := range []struct {
		name string
		cert *tls.Certificate
		pass string
	}{{"no-certificate", nil, pass}, {"foreign-certificate", foreignCert, pass}, {"wrong-passphrase", opCert, pass + "x"}, {"empty-passphrase", opCert, ""}} {
		code, err := inject(bad.cert, bad.pass)
		rep.Eval(fmt.Sprintf("daemon|bad-injection|%s|%d|err=%v", bad.name, code, err != nil))
		rep.Count("bad_injections", 1)
		if err == nil && code == 200 {
			rep.Violate("C09/daemon/bad-injection-accepted/"+bad.name, "an injection that must fail was answered 200", map[string]interface{}{"injection": bad.name})
		}
	}
	sealedChecks("after-bad-injections")
	// K concurrent correct injections
	K := 8
	if verifThorough() {
		K = 32
	}
	var okN, otherN int32
	var wg sync.WaitGroup
	start := make(chan struct{})
	for i := 0; i < K; i++ {
		wg.Add(1)
		go func() {
			defer wg.Done()
			<-start
			code, err := inject(opCert, pass)
			if err == nil && code == 200 {
				atomic.AddInt32(&okN, 1)
			} else {
				atomic.AddInt32(&otherN, 1)
			}
		}()
	}
	close(start)
	wg.Wait()
	rep.Eval(fmt.Sprintf("daemon|transition|K=%d|successes=%d", K, okN))
	if okN != 1 {
		rep.Violate(fmt.Sprintf("C09/daemon/transition/success-count=%d", okN), fmt.Sprintf("%d concurrent correct injections over real TLS: %d were answered 200 (exactly one transition expected)", K, okN), map[string]interface{}{"K": K, "successes": okN, "daemon_log_tail": dbDaemonTail(d)})
	} else {
		rep.Count("daemon_transitions_exactly_once", 1)
	}
	// the service port opens (bounded wait: main() starts the listener right after the ready signal)
	opened := false
	for i := 0; i < 200 && !opened; i++ {
		opened = dbPortOpen(d.ServicePort)
		if !opened {
			time.Sleep(100 * time.Millisecond)
		}
	}
	rep.Eval(fmt.Sprintf("daemon|after|service-port-open=%v", opened))
	if !opened {
		if d.Cmd.ProcessState != nil {
			rep.Violate("C09/daemon/died-after-unseal", "the daemon exited after the unseal", map[string]string{"daemon_log_tail": dbDaemonTail(d)})
		} else {
			rep.Inconc("the service port did not open within 20 s after the unseal\n%s", dbDaemonTail(d))
		}
		return
	}
	ck, err := dbLogin(d, "alice", "alice-pw")
	if err != nil {
		rep.Violate("C09/daemon/after/login-failed", "login fails after the unseal: "+err.Error(), nil)
		return
	}
	ca, err := dbPublishedCA(d, verifSigner("ca_rsa2048").Public())
	if err != nil {
		rep.Violate("C09/daemon/after/published-ca-wrong", "no published CA certificate carries the unsealed CA key", map[string]string{"err": fmt.Sprint(err)})
		return
	}
	if _, err := dbPublishedCA(d, verifSigner("ca_ed25519").Public()); err != nil {
		rep.Violate("C09/daemon/after/published-ed25519-ca-missing", "no published CA certificate carries the unsealed Ed25519 CA key", map[string]string{"err": fmt.Sprint(err)})
	}
	uk, _ := ecdsa.GenerateKey(elliptic.P256(), rand.Reader)
	cert, err := dbIssueX509(d, ck, "alice", uk)
	if err != nil {
		rep.Violate("C09/daemon/after/x509-issuance-failed", err.Error(), nil)
	} else if err := cert.CheckSignatureFrom(ca); err != nil || cert.Subject.CommonName != "alice" {
		rep.Violate("C09/daemon/after/x509-not-under-ca", fmt.Sprintf("issued certificate does not verify under the published CA: %v", err), nil)
	} else {
		rep.Count("daemon_issued_after_unseal", 1)
	}
	q := verifCertReq("alice", "ssh", verifSSHAuthorizedKey(uk.Public()), "1h", nil)
	q.Cookies = verifCk(ck)
	if r, err := dbSend(d, dbClient(d, nil), q, false); err != nil || r.Code != 200 {
		rep.Violate("C09/daemon/after/ssh-issuance-failed", fmt.Sprintf("%v", err), nil)
	} else if sc, err := verifParseSSHCert(r.Body); err != nil || len(sc.ValidPrincipals) != 1 || sc.ValidPrincipals[0] != "alice" {
		rep.Violate("C09/daemon/after/ssh-cert-wrong", fmt.Sprintf("%v", err), nil)
	} else {
		rep.Count("daemon_issued_after_unseal", 1)
	}
	if r, err := dbSend(d, dbClient(d, nil), verifReq{Path: "/readyz"}, true); err == nil && r.Code != 200 {
		rep.Violate("C09/daemon/after/not-ready", "the unsealed daemon does not report ready", map[string]int{"status": r.Code})
	}
	// a second injection after the transition must not produce another transition (200 is fine, keys unchanged)
	inject(opCert, pass)
	if ca2, err := dbPublishedCA(d, verifSigner("ca_rsa2048").Public()); err == nil && ca != nil && !ca2.Equal(ca) {
		rep.Violate("C09/daemon/after/ca-changed-by-second-injection", "a further injection changed the published CA certificate", nil)
	}
	rep.Floor("sealed_service_port_probes", 20)
	rep.Floor("sealed_admin_probes", 60)
	rep.Floor("bad_injections", 4)
	rep.Floor("daemon_issued_after_unseal", 2)
}

// ------------------------------------------------------------------- C16

func TestVerifC16Daemon(t *testing.T) {
	rep := newVerifReport("C16", "(4, engine B) the real keymasterd binary built with the race detector (GORACE halt_on_error=0, own log), unsealed over TLS while readers poll, then a concurrent real-HTTPS workload: logins, SSH / X.509 issuance, TOTP enrolment and verification, token management, public and profile pages on the service port, dashboard / metrics / readiness / event subscribers on the admin port; the daemon's race log is classified like part (3); class = (operation kind)")
	defer rep.Finish()
	const pass = "open sesame"
	users := map[string]string{}
	for i := 0; i < 8; i++ {
		users[fmt.Sprintf("u%d", i)] = fmt.Sprintf("pw-u%d", i)
	}
	d, err := verifStartDaemon(verifDaemonOpts{Name: "c16b", Users: users, AllowedCerts: []string{"password", "U2F"}, AllowedWebUI: []string{"password"}, AdminUsers: []string{"u0"},
		EnableTOTP: true, Ed25519: true, Sealed: true, Passphrase: pass, ClientCAPEM: verifClientCACertPEM()})
	if err != nil {
		rep.Inconc("daemon: %v", err)
		return
	}
	stopped := false
	defer func() {
		if !stopped {
			d.Stop()
		}
	}()
	now := time.Now()
	opKey, _ := ecdsa.GenerateKey(elliptic.P256(), rand.Reader)
	opCert := dbTLSCert(verifMakeLeaf("operator", opKey.Public(), verifClientCACert(), verifSigner("clientca_rsa2048"), now.Add(-time.Hour), now.Add(time.Hour), nil), opKey)
	// unseal while readers poll the admin port
	var wg sync.WaitGroup
	stopPoll := make(chan struct{})
	for i := 0; i < 4; i++ {
		wg.Add(1)
		go func(i int) {
			defer wg.Done()
			paths := []string{"/readyz", "/", "/metrics", "/healthz"}
			for {
				select {
				case <-stopPoll:
					return
				default:
				}
				dbSend(d, dbClient(d, nil), verifReq{Path: paths[i%len(paths)]}, true)
			}
		}(i)
	}
	for i := 0; i < 3; i++ {
		wg.Add(1)
		go func() {
			defer wg.Done()
			dbSend(d, dbClient(d, opCert), verifReq{Method: "POST", Path: "/admin/inject", Form: url.Values{"ssh_ca_password": {pass}}}, true)
		}()
	}
	opened := false
	for i := 0; i < 300 && !opened; i++ {
		opened = dbPortOpen(d.ServicePort)
		if !opened {
			time.Sleep(100 * time.Millisecond)
		}
	}
	close(stopPoll)
	wg.Wait()
	if !opened {
		rep.Inconc("the -race daemon's service port did not open within 30 s after the unseal\n%s", dbDaemonTail(d))
		return
	}
	workers, ops := 8, 25
	if verifThorough() {
		workers, ops = 16, 150
	}
	var done int64
	for w := 0; w < workers; w++ {
		wg.Add(1)
		go func(w int) {
			defer wg.Done()
			user := fmt.Sprintf("u%d", w%8)
			pw := users[user]
			rng := verifRand(fmt.Sprintf("c16b-%d", w))
			ck, _ := dbLogin(d, user, pw)
			key, _ := ecdsa.GenerateKey(elliptic.P256(), rand.Reader)
			var secret string
			tok := newVerifU2FToken()
			u2fOK := w < 8 && verifEnrollU2F(dbEnv{d}, ck, user, tok) == nil // one enrolment per user
			for i := 0; i < ops; i++ {
				kind := rng.Intn(14)
				cl := dbClient(d, nil)
				switch kind {
				case 0:
					ck, _ = dbLogin(d, user, pw)
				case 1:
					q := verifCertReq(user, "ssh", verifSSHAuthorizedKey(key.Public()), "1h", nil)
					q.Cookies = verifCk(ck)
					dbSend(d, cl, q, false)
				case 2:
					dbIssueX509(d, ck, user, key)
				case 3:
					dbSend(d, cl, verifReq{Path: []string{"/public/x509ca", "/public/sshca", "/idp/oauth2/jwks", "/.well-known/openid-configuration", "/public/loginForm"}[rng.Intn(5)]}, false)
				case 4:
					dbSend(d, cl, verifReq{Path: "/profile/", Cookies: verifCk(ck)}, false)
				case 5:
					if r, err := dbSend(d, cl, verifReq{Method: "POST", Path: "/totp/GenerateNew/", Cookies: verifCk(ck)}, false); err == nil && r.Code == 200 {
						var out struct{ TOTPSecret string }
						if jsonUnmarshal(r.Body, &out) == nil && out.TOTPSecret != "" {
							secret = out.TOTPSecret
							dbSend(d, cl, verifReq{Method: "POST", Path: "/totp/ValidateNew/", Form: url.Values{"OTP": {verifTOTPCode(secret, time.Now())}}, Cookies: verifCk(ck)}, false)
						}
					}
				case 6:
					code := "000000"
					if secret != "" {
						code = verifTOTPCode(secret, time.Now())
					}
					dbSend(d, cl, verifReq{Method: "POST", Path: "/api/v0/TOTPAuth", Form: url.Values{"OTP": {code}}, Cookies: verifCk(ck)}, false)
				case 7:
					dbSend(d, cl, verifReq{Method: "POST", Path: "/api/v0/manageTOTPToken", Form: url.Values{"username": {user}, "index": {fmt.Sprint(time.Now().Unix() - int64(rng.Intn(3)))}, "action": {"Update"}, "name": {"n"}}, Cookies: verifCk(ck)}, false)
				case 8:
					dbSend(d, cl, verifReq{Path: []string{"/", "/metrics", "/readyz", "/healthz", "/status"}[rng.Intn(5)]}, true)
				case 9:
					dbSend(d, cl, verifReq{Path: "/users/", Cookies: verifCk(ck)}, false)
				case 10:
					if s, err := c20Dial(fmt.Sprintf("127.0.0.1:%d", d.AdminPort), false); err == nil {
						s.startReading()
						time.Sleep(time.Duration(5+rng.Intn(30)) * time.Millisecond)
						s.conn.Close()
					}
				case 11, 12:
					if !u2fOK {
						continue
					}
					// a hardware-token ceremony; the same signed response is presented from three connections at once
					if req, _ := verifU2FBegin(dbEnv{d}, ck); req != nil {
						resp := tok.SignResponse(req.AppID, req.Challenge)
						var w3 sync.WaitGroup
						var honoured int32
						for k := 0; k < 3; k++ {
							w3.Add(1)
							go func() {
								defer w3.Done()
								if r := verifU2FFinish(dbEnv{d}, ck, resp); r.Code == 200 {
									atomic.AddInt32(&honoured, 1)
								}
							}()
						}
						w3.Wait()
						rep.Count("daemon_u2f_ceremonies", 1)
						if honoured > 1 {
							rep.Violate("C16/daemon/double-spend/u2f-assertion", fmt.Sprintf("one hardware-token assertion sent on 3 connections at once was honoured %d times by the real daemon", honoured), map[string]interface{}{"user": user, "honoured": honoured})
						}
					}
				default:
					dbSend(d, cl, verifReq{Method: "POST", Path: "/api/v0/login", Form: url.Values{"username": {user}, "password": {"wrong"}}}, false)
				}
				rep.Eval(fmt.Sprintf("daemon-race-workload|op=%d", kind))
				atomic.AddInt64(&done, 1)
			}
		}(w)
	}
	wg.Wait()
	alive := d.Cmd.ProcessState == nil && dbPortOpen(d.ServicePort)
	d.Stop()
	stopped = true
	time.Sleep(300 * time.Millisecond)
	rep.Extra["daemon_ops_done"] = done
	if !alive {
		rep.Violate("C16/daemon/died-under-concurrent-load", "the daemon stopped serving during the concurrent workload", map[string]string{"daemon_log_tail": dbDaemonTail(d)})
	}
	if !d.RaceBuilt {
		rep.Inconc("the daemon binary was not built with the race detector")
	}
	c16ClassifyRaceLogs(rep, d.RaceLog, "daemon:")
	rep.Count("daemon_race_workload_done", 1)
	rep.Floor("daemon_race_workload_done", 1)
	rep.Floor("daemon_u2f_ceremonies", 3)
}

// ------------------------------------------------------------------- C11

// dbClientFrom is dbClient with the TCP connection made from the given local address (127.0.0.2 is as good a source
// address on loopback as 127.0.0.1, and a different one).
func dbClientFrom(d *verifDaemon, cert *tls.Certificate, localIP string) *http.Client {
	c := dbClient(d, cert)
	tr := c.Transport.(*http.Transport)
	dialer := &net.Dialer{Timeout: 10 * time.Second, LocalAddr: &net.TCPAddr{IP: net.ParseIP(localIP)}}
	tr.DialContext = dialer.DialContext
	return c
}

func TestVerifC11Daemon(t *testing.T) {
	rep := newVerifReport("C11", "(engine B) real keymasterd binary with an Ed25519 CA next to the RSA one, real TLS: automation certificates minted through the administrator's route for requestor keys of three types (ECDSA P-256, RSA 2048, Ed25519) and the netblock 127.0.0.1/32, then presented in real handshakes from 127.0.0.1 (inside) and from 127.0.0.2 / 127.0.0.3 (outside: the client binds its source address) to the certificate route, the refresh route and an administrator route; admitted <=> the TCP peer is inside and the route takes IP-restricted certificates; class = (requestor key type, route, source, outcome)")
	defer rep.Finish()
	d, err := verifStartDaemon(verifDaemonOpts{Name: "c11b", Users: map[string]string{"root1": "root1-pw"},
		AllowedCerts: []string{"password", "IPCertificate"}, AllowedWebUI: []string{"password"}, AdminUsers: []string{"root1", "autobot"},
		AutomationUsers: []string{"autobot"}, Ed25519: true})
	if err != nil {
		rep.Inconc("daemon: %v", err)
		return
	}
	defer d.Stop()
	rootCk, err := dbLogin(d, "root1", "root1-pw")
	if err != nil {
		rep.Inconc("login over real TLS failed: %v\n%s", err, dbDaemonTail(d))
		return
	}
	type kt struct {
		name string
		key  crypto.Signer
	}
	var keys []kt
	if k, err := ecdsa.GenerateKey(elliptic.P256(), rand.Reader); err == nil {
		keys = append(keys, kt{"ecdsa-p256", k})
	}
	if k, err := rsa.GenerateKey(rand.Reader, 2048); err == nil {
		keys = append(keys, kt{"rsa-2048", k})
	}
	if _, k, err := ed25519.GenerateKey(rand.Reader); err == nil {
		keys = append(keys, kt{"ed25519", k})
	}
	refreshKey, _ := ecdsa.GenerateKey(elliptic.P256(), rand.Reader)
	for _, k := range keys {
		q := verifRoleMintReq("autobot", k.key.Public(), []string{"127.0.0.1/32"}, []string{"127.0.0.1/32"}, nil)
		q.Cookies = verifCk(rootCk)
		r, err := dbSend(d, dbClient(d, nil), q, false)
		if err != nil || r.Code != 200 {
			code := 0
			if r != nil {
				code = r.Code
			}
			rep.Obs("minting an automation certificate for a %s requestor key failed (%v, status %d): key type left out", k.name, err, code)
			continue
		}
		leaf, err := verifParseX509PEM(r.Body)
		if err != nil {
			rep.Inconc("minted certificate for %s does not parse: %v", k.name, err)
			continue
		}
		rep.Count("daemon_role_certificates_minted", 1)
		tc := dbTLSCert(leaf, k.key)
		for _, src := range []string{"127.0.0.1", "127.0.0.2", "127.0.0.3"} {
			inside := src == "127.0.0.1"
			for _, route := range []string{"certgen", "refresh", "users"} {
				var q verifReq
				takesIPCert := true
				switch route {
				case "certgen":
					q = verifCertReq("autobot", "x509", verifPKIXPEM(refreshKey.Public()), "1h", nil)
				case "refresh":
					q = verifRoleRefreshReq(refreshKey.Public())
				default:
					q = verifReq{Method: "GET", Path: "/users/"}
					takesIPCert = false
				}
				r, err := dbSend(d, dbClientFrom(d, tc, src), q, false)
				outcome, admitted := "handshake-or-transport-error", false
				if err == nil {
					outcome = fmt.Sprint(r.Code)
					admitted = r.Code == 200
				}
				rep.Eval(fmt.Sprintf("daemon|%s|%s|inside=%v|%s", k.name, route, inside, outcome))
				c := map[string]interface{}{"requestor_key": k.name, "route": route, "source_address": src, "netblock": "127.0.0.1/32", "outcome": outcome,
					"certificate_issuer": leaf.Issuer.String()}
				if err != nil {
					c["error"] = firstLines(err.Error(), 1)
				}
				switch {
				case admitted && !inside:
					rep.Violate("C11/daemon/admitted-outside/"+route+"/"+k.name, "an automation certificate restricted to 127.0.0.1/32 was honoured in a handshake from "+src, c)
				case admitted && !takesIPCert:
					rep.Violate("C11/daemon/admitted-on-non-ip-route/"+route+"/"+k.name, "an IP-restricted certificate was honoured on a route that does not take them", c)
				case !admitted && inside && takesIPCert:
					rep.Violate("C11/daemon/refused-inside/"+route+"/"+k.name, "an automation certificate was refused from inside its netblock", c)
				default:
					rep.Count(fmt.Sprintf("daemon_ip_cert_probes_admitted_%v", admitted), 1)
					rep.Sample("daemon-ipcert:"+route+":"+fmt.Sprint(inside), 1, c)
				}
			}
		}
	}
	rep.Floor("daemon_role_certificates_minted", 2)
	rep.Floor("daemon_ip_cert_probes_admitted_true", 4)
	rep.Floor("daemon_ip_cert_probes_admitted_false", 12)
}
