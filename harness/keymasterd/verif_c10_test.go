package main

// C10 - only strong public keys are certified; malformed input never panics a
// handler.
//
// Oracle (independent predicate): RSA N.BitLen() >= 2048 and E >= 65537; NIST
// curve P-256/384/521; Ed25519.  A 200 must carry a certificate for exactly the
// submitted key and that key must be strong; weak / unknown / malformed keys
// must get a 4xx.  Every handler invocation runs under a recover wrapper: a
// panic on a key, client-certificate or token input is a violation.

import (
	"bytes"
	"crypto"
	"crypto/dsa"
	"crypto/ecdsa"
	"crypto/ed25519"
	"crypto/elliptic"
	"crypto/rsa"
	"crypto/x509"
	"crypto/x509/pkix"
	"encoding/asn1"
	"encoding/base64"
	"encoding/pem"
	"fmt"
	"math/big"
	"math/rand"
	"net"
	"net/url"
	"strings"
	"testing"
	"time"

	"golang.org/x/crypto/ssh"
)

type c10Key struct {
	Name      string
	Pub       crypto.PublicKey // nil when not parsable
	SSH       string           // "" when no ssh form
	PKIX      string           // "" when no PKIX form
	Strong    bool
	Malformed bool
	PEMOnly   bool // malformation lives in the PEM armour only (paths that take raw DER see a good key)
}

func c10Strong(pub crypto.PublicKey) bool {
	switch k := pub.(type) {
	case *rsa.PublicKey:
		return k.N.BitLen() >= 2048 && k.E >= 65537
	case *ecdsa.PublicKey:
		return k.Curve == elliptic.P256() || k.Curve == elliptic.P384() || k.Curve == elliptic.P521()
	case ed25519.PublicKey:
		return true
	}
	return false
}

func c10PubFixture(name string) crypto.PublicKey {
	b, _ := pem.Decode(verifFixture(name))
	k, err := x509.ParsePKIXPublicKey(b.Bytes)
	if err != nil {
		return nil
	}
	return k
}

func c10Zoo() []c10Key {
	var zoo []c10Key
	add := func(name string, pub crypto.PublicKey) {
		k := c10Key{Name: name, Pub: pub, Strong: c10Strong(pub)}
		if der, err := x509.MarshalPKIXPublicKey(pub); err == nil {
			k.PKIX = string(pem.EncodeToMemory(&pem.Block{Type: "PUBLIC KEY", Bytes: der}))
		}
		if sp, err := ssh.NewPublicKey(pub); err == nil {
			k.SSH = string(ssh.MarshalAuthorizedKey(sp))
		}
		zoo = append(zoo, k)
	}
	for _, u := range verifAllUserKeys() {
		add(u.Name, u.Pub)
	}
	for _, n := range []string{"rsa512_pub", "rsa1024_pub", "rsa2040_pub", "rsa2041_pub", "rsa2047_pub", "rsa2049_pub"} {
		add(n, c10PubFixture(n))
	}
	base := verifSigner("user_rsa2048").Public().(*rsa.PublicKey)
	for _, e := range []int{3, 17, 257, 65535, 65536, 65537, 65539, 1<<31 - 1} {
		add(fmt.Sprintf("rsa2048-e%d", e), &rsa.PublicKey{N: base.N, E: e})
	}
	big4096 := verifSigner("user_rsa4096").Public().(*rsa.PublicKey)
	add("rsa4096-e3", &rsa.PublicKey{N: big4096.N, E: 3})
	add("ec224", c10PubFixture("ec224_pub"))
	if d, ok := c10PubFixture("dsa1024_pub").(*dsa.PublicKey); ok {
		add("dsa1024", d)
	}
	// forms that only exist as PEM text
	raw := func(name, pkix string) {
		zoo = append(zoo, c10Key{Name: name, PKIX: pkix, Malformed: true})
	}
	raw("x25519", string(verifFixture("x25519_pub")))
	raw("secp256k1", string(verifFixture("ecsecp256k1_pub")))
	good := verifAllUserKeys()[0]
	gb, _ := pem.Decode([]byte(good.PKIX))
	raw("pem-retagged-rsa-public-key", string(pem.EncodeToMemory(&pem.Block{Type: "RSA PUBLIC KEY", Bytes: gb.Bytes})))
	zoo[len(zoo)-1].PEMOnly = true
	raw("pem-retagged-certificate", string(pem.EncodeToMemory(&pem.Block{Type: "CERTIFICATE", Bytes: gb.Bytes})))
	zoo[len(zoo)-1].PEMOnly = true
	raw("pem-truncated-der", string(pem.EncodeToMemory(&pem.Block{Type: "PUBLIC KEY", Bytes: gb.Bytes[:len(gb.Bytes)/2]})))
	raw("pem-empty-der", string(pem.EncodeToMemory(&pem.Block{Type: "PUBLIC KEY", Bytes: nil})))
	raw("pem-pkcs1-in-pkix-tag", string(pem.EncodeToMemory(&pem.Block{Type: "PUBLIC KEY", Bytes: x509.MarshalPKCS1PublicKey(base)})))
	raw("not-pem", "hello world")
	raw("empty", "")
	sshRaw := func(name, line string) {
		zoo = append(zoo, c10Key{Name: name, SSH: line, Malformed: true})
	}
	f := strings.Fields(good.SSH)
	// the algorithm name in the text disagrees with the blob: parsers follow
	// the blob, which is the (strong) RSA key
	zoo = append(zoo, c10Key{Name: "ssh-textname-disagrees-with-blob", SSH: "ssh-ed25519 " + f[1] + "\n", Pub: good.Pub, Strong: true})
	// ... and the other way round: a WEAK key in the blob under the text name of an algorithm that needs no size check.
	// What is certified is the key in the blob, so these must be refused whatever the text says.
	for _, wk := range []string{"rsa512_pub", "rsa1024_pub", "rsa2047_pub"} {
		if sp, err := ssh.NewPublicKey(c10PubFixture(wk)); err == nil {
			blob := strings.Fields(string(ssh.MarshalAuthorizedKey(sp)))[1]
			for _, tag := range []string{"ssh-ed25519", "ecdsa-sha2-nistp256", "ecdsa-sha2-nistp384", "sk-ssh-ed25519@openssh.com"} {
				zoo = append(zoo, c10Key{Name: "ssh-weak-" + wk + "-under-text-name-" + tag, SSH: tag + " " + blob + "\n", Pub: c10PubFixture(wk), Strong: false})
			}
		}
	}
	if d, ok := c10PubFixture("dsa1024_pub").(*dsa.PublicKey); ok {
		if sp, err := ssh.NewPublicKey(d); err == nil {
			blob := strings.Fields(string(ssh.MarshalAuthorizedKey(sp)))[1]
			zoo = append(zoo, c10Key{Name: "ssh-weak-dsa1024-under-text-name-ssh-ed25519", SSH: "ssh-ed25519 " + blob + "\n", Pub: d, Strong: false})
		}
	}
	sshRaw("ssh-truncated-b64", f[0]+" "+f[1][:len(f[1])/2]+"\n")
	sshRaw("ssh-no-key", f[0]+" \n")
	sshRaw("ssh-garbage-b64", f[0]+" AAAAB3NzaC1yc2EAAAADAQABAAAAAAAA\n")
	sshRaw("ssh-two-lines", good.SSH+good.SSH)
	sshRaw("ssh-options-prefix", "command=\"/bin/true\" "+good.SSH)
	sshRaw("ssh-cert-as-key", "ssh-rsa-cert-v01@openssh.com "+f[1]+"\n")
	sshRaw("ssh-unknown-alg", "ssh-foo "+f[1]+"\n")
	return zoo
}

type c10Case struct {
	Path   string `json:"path"`
	Key    string `json:"key"`
	Strong bool   `json:"strong_by_oracle"`
	Status int    `json:"status"`
	Note   string `json:"note,omitempty"`
	Input  string `json:"input,omitempty"`
}

type c10World struct {
	env        *verifEnv
	rep        *verifReport
	aliceCk    string
	rootCk     string
	roleTLS    func(q *verifReq)
	trust      *verifTrust
	panicsSeen int
}

// submit sends one key to one issuing path; returns response and the
// certificate's public key when one was issued.
func (w *c10World) submit(path string, k c10Key, sshData, pkixData string) (*verifResp, crypto.PublicKey, bool) {
	var q verifReq
	switch path {
	case "certgen-ssh":
		q = verifCertReq("alice", "ssh", sshData, "1h", nil)
		q.Cookies = map[string]string{"auth_cookie": w.aliceCk}
	case "certgen-x509", "certgen-x509-kubernetes":
		q = verifCertReq("alice", strings.TrimPrefix(path, "certgen-"), pkixData, "1h", nil)
		q.Cookies = map[string]string{"auth_cookie": w.aliceCk}
	case "role-mint", "role-refresh":
		b, _ := pem.Decode([]byte(pkixData))
		var der []byte
		if b != nil {
			der = b.Bytes
		} else {
			der = []byte(pkixData)
		}
		f := url.Values{"pubkey": {base64.RawURLEncoding.EncodeToString(der)}}
		if path == "role-mint" {
			f.Set("identity", "autobot")
			f.Set("requestor_netblock", "10.0.0.0/8")
			f.Set("target_netblock", "10.0.0.0/8")
			q = verifReq{Method: "POST", Path: "/v1/getRoleRequestingCert", Form: f,
				Cookies: map[string]string{"auth_cookie": w.rootCk}}
		} else {
			q = verifReq{Method: "POST", Path: "/v1/refreshRoleRequestingCert", Form: f}
			w.roleTLS(&q)
		}
	case "cloud-role":
		q = verifCloudRoleReq("123456789012", "r1", "arn:aws:iam::123456789012:role/r1", pkixData)
	}
	resp := w.env.Do(q.Build())
	if resp.Code != 200 {
		return resp, nil, false
	}
	if path == "certgen-ssh" {
		c, err := verifParseSSHCert(resp.Body)
		if err != nil {
			return resp, nil, true
		}
		if cp, ok := c.Key.(ssh.CryptoPublicKey); ok {
			return resp, cp.CryptoPublicKey(), true
		}
		return resp, nil, true
	}
	c, err := verifParseX509PEM(resp.Body)
	if err != nil {
		return resp, nil, true
	}
	return resp, c.PublicKey, true
}

func c10Paths() []string {
	return []string{"certgen-ssh", "certgen-x509", "certgen-x509-kubernetes", "role-mint", "role-refresh", "cloud-role"}
}

func TestVerifC10(t *testing.T) {
	rep := newVerifReport("C10", "key zoo (RSA 512..4096 incl. 2040/2041/2047/2049, exponents 3..2^31-1, P-224/256/384/521, secp256k1, Ed25519, DSA, X25519, re-tagged/truncated encodings, SSH lines with options/garbage) x every issuing path (certgen ssh/x509/kubernetes, automation mint, refresh, cloud role) judged by an independent strength predicate; plus structure-aware and byte-level mutation of keys, tokens, client-certificate extensions and request bodies under a recover wrapper; class = (path, key, verdict) / (fuzz target, status)")
	defer rep.Finish()
	rng := verifRand("c10")
	verifInstallFakeSTS()
	env, err := verifNewEnv(verifStateOpts{Name: "c10", Users: map[string]string{"alice": "alice-pw-1", "root1": "root1-pw"},
		AllowedCerts: []string{"password", "IPCertificate"}, AllowedWebUI: []string{"password"}, AdminUsers: []string{"root1"},
		AutomationUsers: []string{"autobot"}, ClientCA: true, Ed25519: true, CLILifetime: "1h", EnableTOTP: true,
		ExtraTop: "aws_certs:\n    allowed_accounts: [\"123456789012\"]\nopenid_connect_idp:\n    clients:\n        - client_id: \"client-a\"\n          client_secret: \"secret-a\"\n          allowed_redirect_domains: [\"example.com\"]\n"})
	if err != nil {
		t.Fatal(err)
	}
	w := &c10World{env: env, rep: rep}
	w.aliceCk, _ = verifLogin(env, "alice", "alice-pw-1")
	w.rootCk, _ = verifLogin(env, "root1", "root1-pw")
	if w.aliceCk == "" || w.rootCk == "" {
		t.Fatal("login failed")
	}
	ca := verifSigner("ca_rsa2048")
	ext := []pkix.Extension{verifIPExtension([]net.IPNet{mustCIDR("10.0.0.0/8")})}
	roleLeaf := verifMakeLeaf("autobot", verifUserECKey().Public(), env.RoleCACert(), ca, time.Now().Add(-time.Hour), time.Now().Add(time.Hour), ext)
	roleCS := env.TLSFor(roleLeaf)
	if roleCS == nil {
		t.Fatal("role certificate does not verify")
	}
	w.roleTLS = func(q *verifReq) { q.TLS = roleCS; q.RemoteAddr = "10.1.1.1:999" }
	zoo := c10Zoo()
	for _, k := range zoo {
		for _, path := range c10Paths() {
			data := k.PKIX
			if path == "certgen-ssh" {
				data = k.SSH
			}
			if data == "" && !(k.Malformed && (k.Name == "empty")) {
				continue
			}
			if k.PEMOnly && (path == "role-mint" || path == "role-refresh") {
				continue // these paths take bare DER: the armour is not part of the input
			}
			resp, certKey, issued := w.submit(path, k, k.SSH, k.PKIX)
			cs := c10Case{Path: path, Key: k.Name, Strong: k.Strong, Status: resp.Code}
			verdict := "refused4xx"
			if issued {
				verdict = "issued"
			} else if resp.Code >= 500 {
				verdict = "refused5xx"
			}
			rep.Eval(fmt.Sprintf("zoo|%s|%s|%s", path, k.Name, verdict))
			if resp.Panic != "" {
				rep.Violate("C10/panic/"+path, "handler panicked on key "+k.Name, map[string]interface{}{"case": cs, "panic": firstLines(resp.Panic, 14)})
				continue
			}
			switch {
			case issued && !k.Strong:
				cs.Note = "a weak / unknown / malformed key was certified"
				rep.Violate("C10/weak-key-certified/"+path+"/"+k.Name, cs.Note, cs)
			case issued && (certKey == nil || !verifPubEqual(certKey, k.Pub)):
				cs.Note = "the certificate does not carry the submitted key"
				rep.Violate("C10/wrong-key-in-cert/"+path, cs.Note, cs)
			case issued:
				rep.Count("strong_issued_"+path, 1)
				rep.Sample("issued:"+path, 1, cs)
			case !issued && !k.Strong && resp.Code >= 500:
				cs.Note = "weak / malformed key refused with a server error instead of a client error"
				rep.Violate("C10/weak-key-5xx/"+path+"/"+k.Name, cs.Note, cs)
			case !issued && !k.Strong:
				rep.Count("weak_refused_"+path, 1)
				rep.Sample("refused:"+path, 2, cs)
			case !issued && k.Strong:
				// strong keys that a path does not take are C19's matter (client
				// offers); counted here
				rep.Count("strong_refused_"+path, 1)
				rep.Obs("strong key %s refused on %s with %d", k.Name, path, resp.Code)
			}
		}
	}
	// ------------------------------------------------------------- fuzzing
	nFuzz := 400
	if verifThorough() {
		nFuzz = 60000
	}
	mut := func(b []byte) []byte {
		m := append([]byte{}, b...)
		if len(m) == 0 {
			return []byte{byte(rng.Intn(256))}
		}
		for k := 1 + rng.Intn(4); k > 0; k-- {
			switch rng.Intn(6) {
			case 0:
				m[rng.Intn(len(m))] ^= byte(1 << rng.Intn(8))
			case 1:
				m[rng.Intn(len(m))] = byte(rng.Intn(256))
			case 2:
				if len(m) > 1 {
					i := rng.Intn(len(m))
					m = append(m[:i], m[i+1:]...)
				}
			case 3:
				i := rng.Intn(len(m))
				m = append(m[:i], append([]byte{byte(rng.Intn(256))}, m[i:]...)...)
			case 4:
				if len(m) > 2 {
					m = m[:1+rng.Intn(len(m)-1)]
				}
			case 5:
				i := rng.Intn(len(m))
				j := i + rng.Intn(len(m)-i)
				m = append(m[:j], append(append([]byte{}, m[i:j]...), m[j:]...)...)
			}
		}
		return m
	}
	strongKeys := []c10Key{}
	for _, k := range zoo {
		if k.Strong && k.PKIX != "" {
			strongKeys = append(strongKeys, k)
		}
	}
	fuzzOne := func(target string, q verifReq, input string, inScope bool) {
		resp := env.Do(q.Build())
		rep.Eval(fmt.Sprintf("fuzz|%s|%d", target, resp.Code/100))
		rep.Count("fuzz_"+target, 1)
		if resp.Panic != "" {
			c := map[string]interface{}{"target": target, "input_b64": base64.StdEncoding.EncodeToString([]byte(input)), "panic": firstLines(resp.Panic, 16)}
			if inScope {
				rep.Violate("C10/panic/fuzz-"+target, "handler panicked on malformed input", c)
			} else {
				rep.Obs("panic outside the statement's scope (%s): %s", target, firstLines(resp.Panic, 1))
			}
		}
	}
	for i := 0; i < nFuzz; i++ {
		k := strongKeys[rng.Intn(len(strongKeys))]
		// 1. ssh key text: mutate decoded blob and re-encode (structure aware) or raw text
		if k.SSH != "" {
			f := strings.Fields(k.SSH)
			blob, _ := base64.StdEncoding.DecodeString(f[1])
			var line string
			if rng.Intn(2) == 0 {
				line = f[0] + " " + base64.StdEncoding.EncodeToString(mut(blob)) + "\n"
			} else {
				line = string(mut([]byte(k.SSH)))
			}
			q := verifCertReq("alice", "ssh", line, "1h", nil)
			q.Cookies = map[string]string{"auth_cookie": w.aliceCk}
			resp := env.Do(q.Build())
			rep.Eval(fmt.Sprintf("fuzz|sshkey|%d", resp.Code/100))
			rep.Count("fuzz_sshkey", 1)
			if resp.Panic != "" {
				rep.Violate("C10/panic/fuzz-sshkey", "handler panicked on malformed SSH key", map[string]interface{}{"input": line, "panic": firstLines(resp.Panic, 16)})
			} else if resp.Code == 200 {
				// whatever was accepted must still be strong and equal to what was sent
				c, err := verifParseSSHCert(resp.Body)
				sent, _, _, _, perr := ssh.ParseAuthorizedKey([]byte(line))
				ok := err == nil && perr == nil && bytes.Equal(c.Key.Marshal(), sent.Marshal())
				if ok {
					if cp, isc := c.Key.(ssh.CryptoPublicKey); !isc || !c10Strong(cp.CryptoPublicKey()) {
						ok = false
					}
				}
				if !ok {
					rep.Violate("C10/mutated-key-certified/ssh", "a mutated SSH key was certified but is weak or differs from the submitted one", map[string]interface{}{"input": line})
				}
			}
		}
		// 2. PKIX DER mutated (x509, role mint, refresh, cloud)
		{
			b, _ := pem.Decode([]byte(k.PKIX))
			der := mut(b.Bytes)
			pemText := string(pem.EncodeToMemory(&pem.Block{Type: "PUBLIC KEY", Bytes: der}))
			for _, path := range []string{"certgen-x509", "role-mint", "role-refresh", "cloud-role"} {
				if i%4 != 0 && path != "certgen-x509" {
					continue
				}
				resp, certKey, issued := w.submit(path, k, "", pemText)
				rep.Eval(fmt.Sprintf("fuzz|pkix-%s|%d", path, resp.Code/100))
				rep.Count("fuzz_pkix", 1)
				if resp.Panic != "" {
					rep.Violate("C10/panic/fuzz-pkix-"+path, "handler panicked on malformed PKIX key", map[string]interface{}{"input_der_hex": fmt.Sprintf("%x", der), "panic": firstLines(resp.Panic, 16)})
				} else if issued {
					sent, perr := x509.ParsePKIXPublicKey(der)
					if perr != nil || certKey == nil || !verifPubEqual(certKey, sent) || !c10Strong(sent) {
						rep.Violate("C10/mutated-key-certified/"+path, "a mutated PKIX key was certified but is weak or differs from the submitted one", map[string]interface{}{"input_der_hex": fmt.Sprintf("%x", der)})
					}
				}
			}
		}
		// 3. tokens: mutate decoded header/payload/signature of a valid session cookie and present it everywhere a token is parsed
		{
			h, p, s, _ := verifSplitJWS(w.aliceCk)
			var tok string
			switch rng.Intn(4) {
			case 0:
				tok = verifJoinJWS(mut(h), p, s)
			case 1:
				tok = verifJoinJWS(h, mut(p), s)
			case 2:
				tok = verifJoinJWS(h, p, mut(s))
			default:
				tok = string(mut([]byte(w.aliceCk)))
			}
			fuzzOne("cookie-profile", verifReq{Path: "/profile/", Cookies: map[string]string{"auth_cookie": tok}, Header: map[string]string{"Accept": "text/html"}}, tok, true)
			if i%3 == 0 {
				fuzzOne("token-endpoint-code", verifReq{Method: "POST", Path: "/idp/oauth2/token", Form: url.Values{"grant_type": {"authorization_code"},
					"redirect_uri": {"https://a.example.com/cb"}, "code": {tok}, "client_id": {"client-a"}, "client_secret": {"secret-a"}}}, tok, true)
				fuzzOne("userinfo-bearer", verifReq{Path: "/idp/oauth2/userinfo", Header: map[string]string{"Authorization": "Bearer " + tok}}, tok, true)
				fuzzOne("verify-cli-token", verifReq{Path: "/verifyAuthToken?token=" + url.QueryEscape(tok)}, tok, true)
				fuzzOne("send-auth-document", verifReq{Path: "/sendAuthDocument?port=1234&token=" + url.QueryEscape(tok), Cookies: map[string]string{"auth_cookie": w.aliceCk}}, tok, true)
			}
		}
		// 4. client certificates with arbitrary address-extension bytes, signed by the trusted role CA
		if i%2 == 0 {
			val := verifIPExtension([]net.IPNet{mustCIDR("10.0.0.0/8")}).Value
			switch rng.Intn(3) {
			case 0:
				val = mut(val)
			case 1:
				val = c10RandomIPExt(rng)
			default:
				val = mut(c10RandomIPExt(rng))
			}
			leaf := verifMakeLeaf("autobot", verifUserECKey().Public(), env.RoleCACert(), ca, time.Now().Add(-time.Hour), time.Now().Add(time.Hour),
				[]pkix.Extension{{Id: verifOIDIPDelegation, Value: val}})
			if cs := env.TLSFor(leaf); cs != nil {
				q := verifRoleRefreshReq(verifUserECKey().Public())
				q.TLS = cs
				q.RemoteAddr = "10.1.1.1:999"
				fuzzOne("clientcert-ext-refresh", q, fmt.Sprintf("%x", val), true)
				q2 := verifCertReq("autobot", "x509", verifPKIXPEM(verifUserECKey().Public()), "1h", nil)
				q2.TLS = cs
				q2.RemoteAddr = "10.1.1.1:999"
				fuzzOne("clientcert-ext-certgen", q2, fmt.Sprintf("%x", val), true)
			}
		}
		// 5. request bodies / form fields / Authorization headers (outside the
		// statement's list: panics are reported as observations)
		if i%2 == 1 {
			body := mut([]byte(`{"keyHandle":"AAAA","clientData":"eyJ0eXAiOiJuYXZpZ2F0b3IuaWQuZ2V0QXNzZXJ0aW9uIn0","signatureData":"AQAAAAEwRQ"}`))
			ck := map[string]string{"auth_cookie": w.aliceCk}
			fuzzOne("u2f-signresponse-json", verifReq{Method: "POST", Path: "/u2f/SignResponse", RawBody: body, RawCT: "application/json", Cookies: ck}, string(body), false)
			fuzzOne("u2f-registerresponse-json", verifReq{Method: "POST", Path: "/u2f/RegisterResponse/alice", RawBody: body, RawCT: "application/json", Cookies: ck}, string(body), false)
			wb := mut([]byte(`{"id":"AAAA","rawId":"AAAA","type":"public-key","response":{"authenticatorData":"AAAA","clientDataJSON":"e30","signature":"AAAA","userHandle":""}}`))
			fuzzOne("webauthn-authfinish-json", verifReq{Method: "POST", Path: "/webauthn/AuthFinish/", RawBody: wb, RawCT: "application/json", Cookies: ck}, string(wb), false)
			fuzzOne("webauthn-registerfinish-json", verifReq{Method: "POST", Path: "/webauthn/RegisterFinish/alice", RawBody: wb, RawCT: "application/json", Cookies: ck}, string(wb), false)
			v := string(mut([]byte("12345")))
			fuzzOne("form-otp", verifReq{Method: "POST", Path: "/api/v0/TOTPAuth", Form: url.Values{"OTP": {v}}, Cookies: ck}, v, false)
			fuzzOne("form-index", verifReq{Method: "POST", Path: "/api/v0/manageU2FToken", Form: url.Values{"username": {"alice"}, "index": {v}, "action": {"Delete"}}, Cookies: ck}, v, false)
			fuzzOne("form-port", verifReq{Path: "/sendAuthDocument?token=x&port=" + url.QueryEscape(v), Cookies: ck}, v, false)
			hv := string(mut([]byte("Basic YWxpY2U6YWxpY2UtcHctMQ==")))
			if !strings.ContainsAny(hv, "\r\n\x00") {
				fuzzOne("authorization-header", verifReq{Method: "POST", Path: "/certgen/alice", Header: map[string]string{"Authorization": hv}}, hv, true)
			}
		}
	}
	// client certificates whose address extension holds one block of every bit length 0..72 and around 256 / 65536,
	// alone or after a well-formed block: a deterministic sweep next to the random bytes above (a bound that is only
	// wrong for lengths 33..39, or modulo 256, is hit for certain)
	{
		type fam struct {
			AddressFamily []byte
			Addresses     []asn1.BitString
		}
		var lens []int
		for bl := 0; bl <= 72; bl++ {
			lens = append(lens, bl)
		}
		for _, base := range []int{248, 256, 264, 65536} {
			for d := 0; d <= 8; d += 4 {
				lens = append(lens, base+d)
			}
		}
		for _, bl := range lens {
			by := make([]byte, (bl+7)/8)
			for i := range by {
				by[i] = 0xff
			}
			if bl%8 != 0 {
				by[len(by)-1] &= ^byte(0) << (8 - bl%8)
			}
			blk := asn1.BitString{Bytes: by, BitLength: bl}
			for vi, addrs := range [][]asn1.BitString{{blk}, {{Bytes: []byte{10}, BitLength: 8}, blk}} {
				val, err := asn1.Marshal([]fam{{AddressFamily: []byte{0, 1, 1}, Addresses: addrs}})
				if err != nil {
					continue
				}
				leaf := verifMakeLeaf("autobot", verifUserECKey().Public(), env.RoleCACert(), ca, time.Now().Add(-time.Hour), time.Now().Add(time.Hour),
					[]pkix.Extension{{Id: verifOIDIPDelegation, Value: val}})
				cs := env.TLSFor(leaf)
				if cs == nil {
					continue
				}
				in := fmt.Sprintf("bitlength=%d,variant=%d,%x", bl, vi, val)
				if len(in) > 200 {
					in = in[:200]
				}
				q := verifRoleRefreshReq(verifUserECKey().Public())
				q.TLS = cs
				q.RemoteAddr = "10.1.1.1:999"
				fuzzOne("clientcert-ext-refresh", q, in, true)
				q2 := verifCertReq("autobot", "x509", verifPKIXPEM(verifUserECKey().Public()), "1h", nil)
				q2.TLS = cs
				q2.RemoteAddr = "10.1.1.1:999"
				fuzzOne("clientcert-ext-certgen", q2, in, true)
				rep.Count("ext_bitlength_sweep", 1)
			}
		}
		rep.Floor("ext_bitlength_sweep", 100)
	}
	// A certificate request whose key is not where the handler looks for it:
	// no upload at all, the key as a plain form field, the upload under
	// another field name, an empty upload, or a urlencoded body.  Each is
	// malformed input on the key-loading path and must end in a refusal.
	{
		ck := map[string]string{"auth_cookie": w.aliceCk}
		keyText := strongKeys[0].SSH
		if keyText == "" {
			keyText = verifSSHAuthorizedKey(verifUserECKey().Public())
		}
		for _, ct := range []string{"ssh", "x509", "x509-kubernetes", ""} {
			base := map[string]string{"duration": "1h"}
			if ct != "" {
				base["type"] = ct
			}
			with := func(extra map[string]string) map[string]string {
				m := map[string]string{}
				for k, v := range base {
					m[k] = v
				}
				for k, v := range extra {
					m[k] = v
				}
				return m
			}
			shapes := []struct {
				name string
				q    verifReq
			}{
				{"no-upload", verifReq{Method: "POST", Path: "/certgen/alice", Multipart: with(nil), Cookies: ck}},
				{"key-as-plain-field", verifReq{Method: "POST", Path: "/certgen/alice", Multipart: with(map[string]string{"pubkeyfile": keyText}), Cookies: ck}},
				{"upload-under-other-name", verifReq{Method: "POST", Path: "/certgen/alice", Multipart: with(nil), FileField: "pubkey", FileData: keyText, Cookies: ck}},
				{"empty-upload", verifReq{Method: "POST", Path: "/certgen/alice", Multipart: with(nil), FileField: "pubkeyfile", FileData: "", Cookies: ck}},
				{"urlencoded-body", verifReq{Method: "POST", Path: "/certgen/alice", Form: url.Values{"type": {ct}, "duration": {"1h"}, "pubkeyfile": {keyText}}, Cookies: ck}},
			}
			for _, sh := range shapes {
				resp := env.Do(sh.q.Build())
				rep.Eval(fmt.Sprintf("misplaced-key|%s|%s|%d", ct, sh.name, resp.Code/100))
				rep.Count("misplaced_key", 1)
				c := map[string]interface{}{"type": ct, "shape": sh.name, "status": resp.Code}
				if resp.Panic != "" {
					c["panic"] = firstLines(resp.Panic, 16)
					rep.Violate("C10/panic/misplaced-key/"+sh.name, "certificate handler panicked on a request whose key upload is missing or misplaced", c)
				} else if resp.Code/100 == 2 {
					rep.Violate("C10/issued-without-key/"+sh.name, "certificate request without a usable key upload answered 2xx", c)
				}
			}
		}
		rep.Floor("misplaced_key", 20)
	}
	for _, p := range c10Paths() {
		rep.Floor("strong_issued_"+p, 3)
		rep.Floor("weak_refused_"+p, 5)
	}
	rep.Floor("fuzz_sshkey", 100)
	rep.Floor("fuzz_pkix", 100)
	rep.Floor("fuzz_cookie-profile", 100)
	rep.Floor("fuzz_clientcert-ext-refresh", 50)
	rep.Extra["keys_in_zoo"] = len(zoo)
	rep.Extra["handler_panics_total"] = len(env.Panics)
}

func c10RandomIPExt(rng *rand.Rand) []byte {
	// hand-rolled DER: SEQUENCE { SEQUENCE { OCTET STRING family, SEQUENCE { BIT STRING ... } } }
	bitstr := func() []byte {
		n := rng.Intn(40)
		by := make([]byte, n)
		for i := range by {
			by[i] = byte(rng.Intn(256))
		}
		unused := byte(rng.Intn(8))
		if n == 0 {
			unused = 0
		} else {
			by[n-1] &= ^byte(0) << unused
		}
		body := append([]byte{unused}, by...)
		return append([]byte{0x03, byte(len(body))}, body...)
	}
	var addrs []byte
	for k := rng.Intn(4); k >= 0; k-- {
		addrs = append(addrs, bitstr()...)
	}
	fam := []byte{0, 1, 1}
	switch rng.Intn(10) {
	case 0, 1:
		fam = []byte{0, byte(rng.Intn(4))}
	case 2:
		fam = []byte{} // truncated address family
	case 3:
		fam = []byte{byte(rng.Intn(2))}
	case 4:
		fam = []byte{0, 1, 1, byte(rng.Intn(256))}
	}
	famTLV := append([]byte{0x04, byte(len(fam))}, fam...)
	seqAddrs := append([]byte{0x30, byte(len(addrs))}, addrs...)
	inner := append(famTLV, seqAddrs...)
	if len(inner) > 120 || len(addrs) > 120 {
		return []byte{0x30, 0x00}
	}
	innerSeq := append([]byte{0x30, byte(len(inner))}, inner...)
	return append([]byte{0x30, byte(len(innerSeq))}, innerSeq...)
}

var _ = big.NewInt
