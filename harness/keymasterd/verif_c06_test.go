package main

// C06 - no protected effect without a valid credential the endpoint accepts.
//
// The route table is extracted from main() at check time.  Protected effects
// observed per probe: signed material in the response, a change of the stored
// profiles / signed records (digest), any other user's planted canary in the
// response, a push transaction reaching the (fake) push service, an auth cookie
// whose subject / factor bits the presented credential did not establish.

import (
	"fmt"
	"net/url"
	"strings"
	"testing"
	"time"
)

// specification side: which credential kinds a route is meant to take
var c06Class = map[string]string{
	"/public/": "public", "/static/": "public", "/static/compiled/": "public", "/custom_static/": "public",
	"/.well-known/openid-configuration": "public", "/idp/oauth2/jwks": "public", "/public/clientConfig": "public",
	"/": "public", "/api/v0/logout": "public", "/auth/oauth2/login": "public", "/auth/oauth2/callback": "public",
	"/api/v0/login": "password-entry", "/idp/oauth2/token": "bearer", "/idp/oauth2/userinfo": "bearer",
	"/verifyAuthToken": "bearer", "/aws/requestRoleCertificate/v1": "bearer",
	"/certgen/": "any-session", "/api/v0/vipAuth": "any-session", "/api/v0/vipPushStart": "any-session",
	"/api/v0/vipPollCheck": "any-session", "/api/v0/TOTPAuth": "any-session", "/api/v0/okta2FAAuth": "any-session",
	"/api/v0/oktaPushStart": "any-session", "/api/v0/oktaPollCheck": "any-session", "/api/v0/bootstrapOtpAuth": "any-session",
	"/u2f/SignRequest": "any-session", "/u2f/SignResponse": "any-session", "/webauthn/AuthBegin/": "any-session",
	"/webauthn/AuthFinish/": "any-session",
	"/profile/":             "webui", "/api/v0/manageU2FToken": "webui", "/api/v0/manageTOTPToken": "webui",
	"/u2f/RegisterRequest/": "webui", "/u2f/RegisterResponse/": "webui", "/webauthn/RegisterRequest/": "webui",
	"/webauthn/RegisterFinish/": "webui", "/totp/GenerateNew/": "webui", "/totp/ValidateNew/": "webui",
	"/api/v0/VerifyTOTP": "webui", "/idp/oauth2/authorize": "webui", "/showAuthToken": "webui", "/sendAuthDocument": "webui",
	"/users/": "admin", "/admin/addUser": "admin", "/admin/deleteUser": "admin", "/admin/newBoostrapOTP": "admin",
	"/v1/getRoleRequestingCert": "admin", "/v1/refreshRoleRequestingCert": "ipcert",
}

type c06Case struct {
	Route   string   `json:"route"`
	Path    string   `json:"path"`
	Method  string   `json:"method"`
	Origin  string   `json:"origin"`
	Cred    string   `json:"credential"`
	Class   string   `json:"route_class"`
	Status  int      `json:"status"`
	Effects []string `json:"protected_effects,omitempty"`
	Note    string   `json:"note,omitempty"`
}

func verifRenameTOTP(env *verifEnv, ck, user, name string) (int64, bool) {
	nowU := time.Now().Unix()
	for idx := nowU + 1; idx >= nowU-5; idx-- {
		r := env.Do(verifReq{Method: "POST", Path: "/api/v0/manageTOTPToken", Form: url.Values{"username": {user},
			"index": {fmt.Sprint(idx)}, "action": {"Update"}, "name": {name}}, Cookies: verifCk(ck)}.Build())
		if r.Code == 200 {
			return idx, true
		}
	}
	return 0, false
}

func TestVerifC06(t *testing.T) {
	rep := newVerifReport("C06", "every route registered by main() (extracted at check time, plus sub-paths naming another user) x ~60 credential shapes (invalid: none/expired/nbf/forged/alg-substituted/wrong-kind/foreign-key/deny-listed key/client-CA-only/IP certificate outside its blocks; valid but below the route's class: password-only cookie where the web UI needs U2F, keymaster or IP client certificates on routes that do not take them, non-admin on admin routes) x HTTP methods x same-site/cross-site Origin/Referer; effects monitored: signed material, database digest, other users' canaries, push transactions, unearned auth cookies; class = (route class, credential, method, origin, outcome)")
	defer rep.Finish()
	vip := newVerifFakeVIP()
	defer vip.Server.Close()
	verifInstallFakeSTS()
	oidc := "aws_certs:\n    allowed_accounts: [\"123456789012\"]\nopenid_connect_idp:\n    clients:\n        - client_id: \"client-a\"\n          client_secret: \"secret-a\"\n          allowed_redirect_domains: [\"example.com\"]\n"
	deny := verifSSHFingerprintHex(verifSigner("foreign_ec384").Public())
	env, err := verifNewEnv(verifStateOpts{Name: "c06", Users: map[string]string{"alice": "alice-pw-1", "bob": "bob-pw", "root1": "root1-pw"},
		AllowedCerts: []string{"U2F"}, AllowedWebUI: []string{"password"}, AdminUsers: []string{"root1", "autobot"},
		AutomationUsers: []string{"autobot"}, ClientCA: true, EnableTOTP: true, EnableBootstrap: true, CLILifetime: "1h",
		VIP: true, DenyFPs: []string{deny}, ExtraTop: oidc})
	if err != nil {
		t.Fatal(err)
	}
	env.InstallFakeVIP(vip)
	for _, u := range []string{"alice", "bob", "root1", "autobot"} {
		vip.SetOTP(u, 999999)
	}
	ca := verifSigner("ca_rsa2048")
	// plant profiles with canaries (real enrolment flows, web UI still at password level)
	canary := map[string]string{}
	var bobIdx int64
	for _, u := range []string{"alice", "bob", "root1"} {
		ck, _ := verifLogin(env, u, map[string]string{"alice": "alice-pw-1", "bob": "bob-pw", "root1": "root1-pw"}[u])
		if _, err := verifEnrollTOTP(env, ck); err != nil {
			t.Fatalf("enrol %s: %v", u, err)
		}
		canary[u] = "CANARY-" + u + "-7731"
		idx, ok := verifRenameTOTP(env, ck, u, canary[u])
		if !ok {
			t.Fatalf("cannot plant canary for %s", u)
		}
		if u == "bob" {
			bobIdx = idx
		}
	}
	env.SetAllowedWebUI([]string{"U2F"})
	w := &verifCredWorld{Env: env, CA: ca, User: "alice", Password: "alice-pw-1", AutoUser: "autobot"}
	shapes := w.Shapes()
	// deny-listed key: a keymaster-issued certificate whose key fingerprint is on the deny list
	{
		leaf := verifMakeLeaf("alice", verifSigner("foreign_ec384").Public(), env.UserCACert(), ca, time.Now().Add(-time.Hour), time.Now().Add(time.Hour), nil)
		if cs := env.TLSFor(leaf); cs != nil {
			shapes = append(shapes, verifCred{Name: "cert-keymaster-denylisted-key", Kind: "cert", Why: "deny-listed key",
				Apply: func(q *verifReq) { q.TLS = cs }})
		}
		// an administrator's keymaster certificate (valid on admin routes)
		leaf2 := verifMakeLeaf("root1", verifUserECKey().Public(), env.UserCACert(), ca, time.Now().Add(-time.Hour), time.Now().Add(time.Hour), nil)
		if cs := env.TLSFor(leaf2); cs != nil {
			shapes = append(shapes, verifCred{Name: "cert-keymaster-admin", Kind: "cert", Valid: true, User: "root1", Bits: verifBit["KeymasterX509"],
				Apply: func(q *verifReq) { q.TLS = cs }})
		}
	}
	superForm := func() url.Values {
		return url.Values{"username": {"bob"}, "index": {fmt.Sprint(bobIdx)}, "action": {"Delete"}, "OTP": {"123456"}, "name": {"renamed"},
			"duration": {"1h"}, "identity": {"autobot"}, "requestor_netblock": {"0.0.0.0/0"}, "target_netblock": {"0.0.0.0/0"},
			"pubkey": {strings.TrimRight(verifB64(mustPKIXDER(verifUserECKey().Public())), "=")}, "port": {"12345"}, "token": {"x.y.z"},
			"response_type": {"code"}, "client_id": {"client-a"}, "scope": {"openid"}, "redirect_uri": {"https://app.example.com/cb"},
			"nonce": {"nonce-123456"}, "state": {"s"}, "login_destination": {"/profile/"}, "type": {"x509"}, "grant_type": {"authorization_code"},
			"code": {"x.y.z"}, "user": {"bob"}}
	}
	type target struct {
		route, path string
	}
	var targets []target
	for _, rt := range env.Routes {
		p := rt.Pattern
		if strings.HasPrefix(p, "/static") || strings.HasPrefix(p, "/custom_static") {
			continue
		}
		targets = append(targets, target{p, p})
		switch p {
		case "/certgen/":
			targets = append(targets, target{p, p + "alice"}, target{p, p + "bob"}, target{p, p + "autobot"})
		case "/profile/", "/u2f/RegisterRequest/", "/u2f/RegisterResponse/", "/webauthn/RegisterRequest/", "/webauthn/RegisterFinish/":
			targets = append(targets, target{p, p + "bob"}, target{p, p + "alice"})
		}
	}
	unclassified := map[string]bool{}
	digest := c04DBDigest(env.DB())
	pushes := func() int { vip.mu.Lock(); defer vip.mu.Unlock(); return vip.Calls["pushstart"] }
	allCanaries := []string{canary["alice"], canary["bob"], canary["root1"]}
	methods := []string{"GET", "POST"}
	origins := []string{"none", "cross-origin", "null-origin", "cross-referer", "sibling-origin", "relying-party-origin"}
	if verifThorough() {
		methods = []string{"GET", "POST", "PUT", "DELETE", "HEAD"}
		origins = []string{"none", "same-site", "cross-origin", "cross-referer", "null-origin", "malformed-origin", "sibling-origin", "sibling-origin-2", "sibling-referer", "relying-party-origin", "relying-party-referer"}
	}
	trust, _ := verifPublishedTrust(env)
	probe := func(tg target, cred verifCred, method, origin string) {
		class, known := c06Class[tg.route]
		if !known {
			unclassified[tg.route] = true
			class = "unclassified"
		}
		q := verifReq{Method: method, Path: tg.path, Header: map[string]string{}}
		f := superForm()
		if tg.route == "/certgen/" && method == "POST" {
			q.Multipart = map[string]string{"type": "x509", "duration": "1h"}
			q.FileField, q.FileData = "pubkeyfile", verifPKIXPEM(verifUserECKey().Public())
		} else if method == "GET" || method == "HEAD" || method == "DELETE" {
			q.Path += "?" + f.Encode()
		} else {
			q.Form = f
		}
		if class == "any-session" || class == "webui" {
			q.Cookies = map[string]string{"vip_push_cookie": "probe-" + cred.Name + method + origin}
		}
		switch origin {
		case "same-site":
			q.Header["Origin"] = "https://" + verifHost
		case "cross-origin":
			q.Header["Origin"] = "https://evil.example"
		case "cross-referer":
			q.Header["Referer"] = "https://evil.example/page"
		case "null-origin":
			q.Header["Origin"] = "null"
		case "sibling-origin":
			// another origin on the same machine: the same host name at another port (its tail differs only by digits of
			// the default https port), e.g. a second service next to keymaster
			q.Header["Origin"] = "https://" + verifHostIdentity + ":3344"
		case "sibling-origin-2":
			q.Header["Origin"] = "https://" + verifHostIdentity + "4" + verifHTTPAddress
		case "sibling-referer":
			q.Header["Referer"] = "https://" + verifHostIdentity + ":334/page"
		case "relying-party-origin":
			// a web application registered as an OpenID Connect client (its domain is in allowed_redirect_domains):
			// trusted to receive codes, it is still another site
			q.Header["Origin"] = "https://app.example.com"
		case "relying-party-referer":
			q.Header["Referer"] = "https://login.app.example.com/start"
		case "malformed-origin":
			q.Header["Origin"] = "https://evil.example:bad port/"
		}
		cred.Apply(&q)
		if cred.Valid && cred.User == "root1" {
			// an admitted administrator really performs the operation: aim it at a
			// sacrificial user so the planted victims stay intact for later probes
			for _, m := range []url.Values{q.Form, f} {
				if m != nil {
					m.Set("username", "sacrifice")
				}
			}
			if q.Form == nil && !strings.Contains(tg.route, "certgen") {
				q.Path = tg.path + "?" + f.Encode()
			}
		}
		pBefore := pushes()
		resp := env.Do(q.Build())
		// ---- collect protected effects
		var eff []string
		if sm := verifSignedMaterial(resp); len(sm) > 0 {
			eff = append(eff, "signed:"+strings.Join(sm, ","))
		}
		d := c04DBDigest(env.DB())
		if d != digest {
			eff = append(eff, "stored-data-changed")
			digest = d
		}
		for _, cn := range allCanaries {
			if strings.Contains(string(resp.Body), cn) {
				eff = append(eff, "profile-content:"+cn)
			}
		}
		if pushes() != pBefore {
			eff = append(eff, "push-transaction-started")
		}
		cs := c06Case{Route: tg.route, Path: tg.path, Method: method, Origin: origin, Cred: cred.Name, Class: class, Status: resp.Code, Effects: eff}
		crossSite := origin == "cross-origin" || origin == "cross-referer" || origin == "null-origin" || strings.HasPrefix(origin, "sibling-") || strings.HasPrefix(origin, "relying-party-")
		// ---- which rule applies
		rule := ""
		switch {
		case !cred.Valid:
			rule = "invalid-credential"
		case crossSite && method != "GET" && method != "HEAD" && class != "password-entry": // (the login endpoints take the password itself, typed into the request: not an ambient credential)
			// whatever the credential: cookies, client certificates and cached basic-auth are all attached by the browser
			rule = "cross-site-state-change"
		case class == "webui" && (cred.Kind == "cert" || (cred.Bits&verifBit["U2F"]) == 0):
			rule = "below-webui-level"
		case class == "admin" && cred.User != "root1" && !(cred.User == "autobot" && cred.Bits&verifBit["KeymasterX509"] != 0):
			rule = "not-admin"
		case class == "admin" && cred.Kind == "cert" && cred.IPCert:
			rule = "ip-cert-on-non-ip-route"
		case class == "admin" && cred.Kind == "cookie" && (cred.Bits&verifBit["U2F"]) == 0:
			rule = "below-webui-level"
		case class == "ipcert" && !(cred.IPCert && cred.Valid):
			rule = "non-ip-credential-on-ip-route"
		}
		out := "no-effect"
		if len(eff) > 0 {
			out = "EFFECT"
		}
		rep.Eval(fmt.Sprintf("%s|%s|%s|%s|rule=%s|%s", class, cred.Name, method, origin, rule, out))
		if resp.Panic != "" {
			rep.Obs("panic on %s %s with %s: %s", method, tg.path, cred.Name, firstLines(resp.Panic, 1))
		}
		// own canary on own pages is not a leak for a valid credential of that user
		if rule == "" {
			rep.Count("admitted_or_public", 1)
			// rule 4: identity / level really established by the credential
			if ck := resp.Cookie("auth_cookie"); ck != nil && ck.Value != "" && cred.Valid && class != "password-entry" && class != "public" {
				sub, bits, ok := verifCookieInfo(ck.Value, trust.Keys)
				if !ok || sub != cred.User || bits&^cred.Bits != 0 {
					cs.Note = fmt.Sprintf("auth cookie for %q bits %#x set for a credential proving %q bits %#x", sub, bits, cred.User, cred.Bits)
					rep.Violate("C06/unearned-cookie/"+tg.route+"/"+cred.Name, cs.Note, cs)
				}
			}
			if resp.Code == 200 && tg.route == "/certgen/" && cred.Valid {
				if c, err := verifParseX509PEM(resp.Body); err == nil && c.Subject.CommonName != cred.User {
					cs.Note = "certificate for " + c.Subject.CommonName + " issued to a credential proving " + cred.User
					rep.Violate("C06/identity-mismatch/certgen/"+cred.Name, cs.Note, cs)
				}
			}
			return
		}
		rep.Count("rule_"+rule, 1)
		if len(eff) > 0 {
			// a public page may legitimately show nothing protected; anything in eff is protected by definition
			cs.Note = "protected effect under rule " + rule
			if cred.Kind == "cookie" && (method == "GET" || method == "HEAD") && crossSite {
				rep.Obs("GET with cross-site origin had an effect on %s (observation: the statement speaks of state-changing requests)", tg.route)
				return
			}
			rep.Violate("C06/"+rule+"/"+tg.route+"/"+cred.Name+"/"+eff[0][:strings.IndexAny(eff[0]+":", ":")], cs.Note+": "+strings.Join(eff, "; "), cs)
		} else {
			rep.Sample(rule+":"+class, 1, cs)
		}
	}
	for _, tg := range targets {
		for _, cred := range shapes {
			for _, m := range methods {
				for _, o := range origins {
					ambient := cred.Valid && (cred.Kind == "cookie" || cred.Kind == "cert") // credentials a browser attaches by itself
					if !verifThorough() && o != "none" && !ambient && (o != "cross-origin" || (len(tg.path)+len(cred.Name))%4 != 0) {
						continue // quick: cross-site matters for valid cookies and client certificates; sample the rest
					}
					if !verifThorough() && (o == "null-origin" || o == "cross-referer" || o == "sibling-origin" || o == "relying-party-origin") && m == "GET" {
						continue
					}
					probe(tg, cred, m, o)
				}
			}
		}
	}
	// the level the certificate endpoint accepts, under the certificate settings of other deployments (names the
	// setting does not act on - BootstrapOTP, federated, a misspelt one - next to the ones it does): a credential below
	// that level obtains nothing, whichever names are listed beside the ones it could have proven
	for _, cfg := range [][]string{{"U2F", "BootstrapOTP"}, {"TOTP", "federated"}, {"u2f"}, {"SymantecVIP", "Okta2FA", "no-such-method"}, {}} {
		L := map[string]bool{}
		for _, m := range cfg {
			L[m] = true
		}
		env.SetAllowedCerts(cfg)
		for _, cred := range shapes {
			for _, origin := range []string{"none", "cross-origin"} {
				user := "alice"
				if cred.IPCert || (cred.Kind == "cert" && cred.User != "") {
					user = cred.User
				}
				q := verifReq{Method: "POST", Path: "/certgen/" + user, Header: map[string]string{}, Multipart: map[string]string{"type": "x509", "duration": "1h"},
					FileField: "pubkeyfile", FileData: verifPKIXPEM(verifUserECKey().Public())}
				if origin == "cross-origin" {
					q.Header["Origin"] = "https://evil.example"
				}
				cred.Apply(&q)
				resp := env.Do(q.Build())
				exp := c01Expect(L, cred, "POST", false)
				if origin != "none" && exp == "issue" {
					exp = "refuse" // an ambient credential riding on another site's request
					if cred.Kind != "cookie" && cred.Kind != "cert" {
						exp = "unspec"
					}
				}
				signed := verifSignedMaterial(resp)
				rep.Eval(fmt.Sprintf("certificate-level|L=%s|%s|%s|%s|signed=%v", strings.Join(cfg, ","), cred.Name, origin, exp, len(signed) > 0))
				rep.Count("certificate_level_probes", 1)
				if exp == "refuse" && (len(signed) > 0 || resp.Code == 200) {
					cs := c06Case{Route: "/certgen/", Path: q.Path, Method: "POST", Origin: origin, Cred: cred.Name, Class: "any-session", Status: resp.Code, Effects: signed,
						Note: "allowed_auth_backends_for_certs=" + strings.Join(cfg, ",")}
					rep.Violate("C06/below-certificate-level/"+cred.Name+"/L="+strings.Join(cfg, ","), "a credential below the level the certificate endpoint accepts obtained signed material", cs)
				}
			}
		}
	}
	env.SetAllowedCerts([]string{"U2F"})
	rep.Floor("certificate_level_probes", 300)
	for r := range unclassified {
		rep.Obs("route %s is registered but not classified by the specification table: only the invalid-credential and cross-site rules were applied", r)
	}
	rep.Extra["routes_extracted"] = len(env.Routes)
	rep.Extra["targets"] = len(targets)
	rep.Extra["credential_shapes"] = len(shapes)
	rep.Extra["unclassified_routes"] = len(unclassified)
	rep.Floor("rule_invalid-credential", 2000)
	rep.Floor("rule_below-webui-level", 100)
	rep.Floor("rule_not-admin", 50)
	rep.Floor("rule_cross-site-state-change", 100)
	rep.Floor("rule_non-ip-credential-on-ip-route", 10)
	rep.Floor("admitted_or_public", 100)
	if len(env.Routes) < 30 {
		rep.Inconc("only %d routes extracted", len(env.Routes))
	}
	rep.Assume("deny list entries are lower-case hex SHA-256 of the SSH wire encoding of the key (the only format the setting is compared against)")
}
