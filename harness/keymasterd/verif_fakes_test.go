package main

// Fake external parties and soft second-factor tokens.  None of this touches
// keymasterd internals: the parties are reached over HTTP(S) exactly as the
// real ones would be.

import (
	"bufio"
	"crypto/ecdsa"
	"crypto/elliptic"
	"crypto/rand"
	"crypto/sha256"
	"crypto/x509"
	"crypto/x509/pkix"
	"encoding/base64"
	"encoding/binary"
	"encoding/json"
	"fmt"
	"io"
	"math/big"
	"net"
	"net/http"
	"net/http/httptest"
	"regexp"
	"strings"
	"sync"
	"time"

	"github.com/pquerna/otp/totp"
)

// ------------------------------------------------------------------ fake VIP

type verifVIPTx struct {
	User     string
	Approved bool
	Status   string // poll status once decided: 7000 approved, 7001 waiting, 7002 denied
}

type verifFakeVIP struct {
	mu      sync.Mutex
	Server  *httptest.Server
	OTP     map[string]int // user -> currently valid OTP
	Tx      map[string]*verifVIPTx
	seq     int
	Calls   map[string]int
	Mode    string // "", "down" (connection refused is modelled by 500), "error"
	PushLog []string
}

var vipRe = map[string]*regexp.Regexp{
	"user":  regexp.MustCompile(`<(?:vip:)?userId>([^<]*)</`),
	"token": regexp.MustCompile(`<(?:vip:)?credentialId>([^<]*)</`),
	"otp":   regexp.MustCompile(`<(?:vip:)?otp>([^<]*)</`),
	"tx":    regexp.MustCompile(`<(?:vip:)?transactionId>([^<]*)</`),
}

func newVerifFakeVIP() *verifFakeVIP {
	f := &verifFakeVIP{OTP: map[string]int{}, Tx: map[string]*verifVIPTx{}, Calls: map[string]int{}}
	// (idle keep-alive connections are dropped quickly: the daemon's VIP client builds a transport per call and never
	// reuses or closes its idle connections, which would exhaust descriptors in long walks)
	f.Server = httptest.NewUnstartedServer(http.HandlerFunc(f.serve))
	f.Server.Config.IdleTimeout = 2 * time.Second
	f.Server.StartTLS()
	return f
}

func (f *verifFakeVIP) first(kind, body string) string {
	m := vipRe[kind].FindStringSubmatch(body)
	if m == nil {
		return ""
	}
	return m[1]
}

func (f *verifFakeVIP) serve(w http.ResponseWriter, r *http.Request) {
	b, _ := io.ReadAll(r.Body)
	body := string(b)
	f.mu.Lock()
	defer f.mu.Unlock()
	if f.Mode == "error" {
		w.WriteHeader(500)
		return
	}
	env := func(inner string) {
		fmt.Fprintf(w, `<?xml version="1.0" encoding="UTF-8"?><S:Envelope xmlns:S="http://schemas.xmlsoap.org/soap/envelope/"><S:Body>%s</S:Body></S:Envelope>`, inner)
	}
	switch {
	case strings.Contains(body, "GetUserInfoRequest"):
		f.Calls["userinfo"]++
		u := f.first("user", body)
		if _, ok := f.OTP[u]; !ok {
			env(`<GetUserInfoResponse xmlns="https://schemas.symantec.com/vip/2011/04/vipuserservices"><requestId>1</requestId><status>6003</status><statusMessage>User does not exist.</statusMessage></GetUserInfoResponse>`)
			return
		}
		env(fmt.Sprintf(`<GetUserInfoResponse xmlns="https://schemas.symantec.com/vip/2011/04/vipuserservices"><requestId>1</requestId><status>0000</status><statusMessage>Success</statusMessage><userId>%s</userId><userStatus>ACTIVE</userStatus><numBindings>1</numBindings><credentialBindingDetail><credentialId>TOK-%s</credentialId><credentialType>STANDARD_OTP</credentialType><credentialStatus>ENABLED</credentialStatus><bindingDetail><bindStatus>ENABLED</bindStatus></bindingDetail></credentialBindingDetail></GetUserInfoResponse>`, u, u))
	case strings.Contains(body, "AuthenticateCredentialsRequest"):
		f.Calls["validate"]++
		tok := strings.TrimPrefix(f.first("token", body), "TOK-")
		var otp int
		fmt.Sscanf(f.first("otp", body), "%d", &otp)
		status := "6009"
		if v, ok := f.OTP[tok]; ok && v == otp {
			status = "0000"
		}
		env(fmt.Sprintf(`<AuthenticateCredentialsResponse xmlns="https://schemas.symantec.com/vip/2011/04/vipuserservices"><requestId>1</requestId><status>%s</status><statusMessage>x</statusMessage></AuthenticateCredentialsResponse>`, status))
	case strings.Contains(body, "AuthenticateUserWithPushRequest"):
		f.Calls["pushstart"]++
		u := f.first("user", body)
		f.PushLog = append(f.PushLog, u)
		if _, ok := f.OTP[u]; !ok {
			env(`<AuthenticateUserWithPushResponse xmlns="https://schemas.symantec.com/vip/2011/04/vipuserservices"><requestId>1</requestId><status>6003</status><statusMessage>no user</statusMessage></AuthenticateUserWithPushResponse>`)
			return
		}
		f.seq++
		id := fmt.Sprintf("tx%06d", f.seq)
		f.Tx[id] = &verifVIPTx{User: u, Status: "7001"}
		env(fmt.Sprintf(`<AuthenticateUserWithPushResponse xmlns="https://schemas.symantec.com/vip/2011/04/vipuserservices"><requestId>1</requestId><status>6040</status><statusMessage>Mobile push request sent</statusMessage><transactionId>%s</transactionId><pushDetail><pushCredentialId>TOK-%s</pushCredentialId><pushSent>true</pushSent></pushDetail></AuthenticateUserWithPushResponse>`, id, u))
	case strings.Contains(body, "PollPushStatusRequest"):
		f.Calls["poll"]++
		id := f.first("tx", body)
		tx := f.Tx[id]
		st := "7005"
		if tx != nil {
			st = tx.Status
		}
		env(fmt.Sprintf(`<PollPushStatusResponse xmlns="https://schemas.symantec.com/vip/2011/04/vipuserservices"><requestId>1</requestId><status>0000</status><statusMessage>Success</statusMessage><transactionStatus><transactionId>%s</transactionId><status>%s</status><statusMessage>x</statusMessage></transactionStatus></PollPushStatusResponse>`, id, st))
	default:
		w.WriteHeader(400)
	}
}

// ApproveOnDevice: the owner of `user`'s phone taps approve on every pending push for that user.
func (f *verifFakeVIP) ApproveOnDevice(user string) int {
	f.mu.Lock()
	defer f.mu.Unlock()
	n := 0
	for _, tx := range f.Tx {
		if tx.User == user && tx.Status == "7001" {
			tx.Status, tx.Approved = "7000", true
			n++
		}
	}
	return n
}

// AnswerOnDevice: every pending push of user gets a final status other than "approved" (7002 denied by the user,
// 7003 expired, 7004 timed out, 7006 error, or anything the service may send).
func (f *verifFakeVIP) AnswerOnDevice(user, status string) int {
	f.mu.Lock()
	defer f.mu.Unlock()
	n := 0
	for _, tx := range f.Tx {
		if tx.User == user && tx.Status == "7001" {
			tx.Status, tx.Approved = status, false
			n++
		}
	}
	return n
}

func (f *verifFakeVIP) SetOTP(user string, otp int) {
	f.mu.Lock()
	f.OTP[user] = otp
	f.mu.Unlock()
}

func (f *verifFakeVIP) CertPool() *x509.CertPool {
	p := x509.NewCertPool()
	p.AddCert(f.Server.Certificate())
	return p
}

// ------------------------------------------------------------------ fake Okta

type verifFakeOkta struct {
	mu       sync.Mutex
	Password map[string]string // login -> password
	OTP      map[string]string // login -> valid passcode
	Push     map[string]string // login -> SUCCESS | WAITING | REJECTED
	Expired  map[string]bool   // login -> the transaction Okta hands out has already expired (expiresAt in the past)
	state    map[string]string // stateToken -> login
	seq      int
	Calls    map[string]int
}

func newVerifFakeOkta() *verifFakeOkta {
	return &verifFakeOkta{Password: map[string]string{}, OTP: map[string]string{}, Push: map[string]string{}, Expired: map[string]bool{},
		state: map[string]string{}, Calls: map[string]int{}}
}

func (f *verifFakeOkta) ServeHTTP(w http.ResponseWriter, r *http.Request) {
	b, _ := io.ReadAll(r.Body)
	f.mu.Lock()
	defer f.mu.Unlock()
	w.Header().Set("Content-Type", "application/json")
	if r.URL.Path == "/api/v1/authn" {
		f.Calls["authn"]++
		var in struct{ Username, Password string }
		json.Unmarshal(b, &in)
		if pw, ok := f.Password[in.Username]; !ok || pw != in.Password || in.Password == "" {
			w.WriteHeader(401)
			fmt.Fprint(w, `{"errorCode":"E0000004"}`)
			return
		}
		f.seq++
		st := fmt.Sprintf("state-%d", f.seq)
		f.state[st] = in.Username
		exp := time.Now().Add(5 * time.Minute)
		if f.Expired[in.Username] {
			exp = time.Now().Add(-time.Second)
		}
		fmt.Fprintf(w, `{"stateToken":%q,"expiresAt":%q,"status":"MFA_REQUIRED","_embedded":{"user":{"id":"u1","profile":{"login":%q}},"factors":[{"id":"otp-%s","factorType":"token:software:totp","provider":"OKTA","vendorName":"OKTA"},{"id":"push-%s","factorType":"push","provider":"OKTA","vendorName":"OKTA"}]}}`,
			st, exp.UTC().Format(time.RFC3339), in.Username, in.Username, in.Username)
		return
	}
	if strings.HasPrefix(r.URL.Path, "/api/v1/authn/factors/") && strings.HasSuffix(r.URL.Path, "/verify") {
		id := strings.TrimSuffix(strings.TrimPrefix(r.URL.Path, "/api/v1/authn/factors/"), "/verify")
		var in struct{ StateToken, PassCode string }
		json.Unmarshal(b, &in)
		login, ok := f.state[in.StateToken]
		if !ok {
			w.WriteHeader(401)
			return
		}
		switch {
		case strings.HasPrefix(id, "otp-"):
			f.Calls["otp"]++
			if strings.TrimPrefix(id, "otp-") != login || f.OTP[login] == "" || f.OTP[login] != in.PassCode {
				w.WriteHeader(403)
				fmt.Fprint(w, `{"errorCode":"E0000068"}`)
				return
			}
			fmt.Fprint(w, `{"status":"SUCCESS"}`)
		case strings.HasPrefix(id, "push-"):
			f.Calls["push"]++
			if strings.TrimPrefix(id, "push-") != login {
				w.WriteHeader(403)
				return
			}
			switch f.Push[login] {
			case "SUCCESS":
				fmt.Fprint(w, `{"status":"SUCCESS"}`)
			case "REJECTED":
				fmt.Fprint(w, `{"status":"MFA_CHALLENGE","factorResult":"REJECTED"}`)
			default:
				fmt.Fprint(w, `{"status":"MFA_CHALLENGE","factorResult":"WAITING"}`)
			}
		default:
			w.WriteHeader(404)
		}
		return
	}
	w.WriteHeader(404)
}

// ------------------------------------------------------------------ fake OAuth2 IdP

type verifFakeIdP struct {
	mu    sync.Mutex
	Codes map[string]string // code -> login
	Toks  map[string]string // access token -> login
	seq   int
}

func newVerifFakeIdP() *verifFakeIdP {
	return &verifFakeIdP{Codes: map[string]string{}, Toks: map[string]string{}}
}

func (f *verifFakeIdP) NewCode(login string) string {
	f.mu.Lock()
	defer f.mu.Unlock()
	f.seq++
	c := fmt.Sprintf("code-%d", f.seq)
	f.Codes[c] = login
	return c
}

func (f *verifFakeIdP) ServeHTTP(w http.ResponseWriter, r *http.Request) {
	f.mu.Lock()
	defer f.mu.Unlock()
	switch r.URL.Path {
	case "/token":
		r.ParseForm()
		login, ok := f.Codes[r.Form.Get("code")]
		if !ok {
			w.WriteHeader(400)
			fmt.Fprint(w, `{"error":"invalid_grant"}`)
			return
		}
		delete(f.Codes, r.Form.Get("code"))
		f.seq++
		at := fmt.Sprintf("at-%d", f.seq)
		f.Toks[at] = login
		w.Header().Set("Content-Type", "application/json")
		fmt.Fprintf(w, `{"access_token":%q,"token_type":"Bearer","expires_in":3600}`, at)
	case "/userinfo":
		at := strings.TrimPrefix(r.Header.Get("Authorization"), "Bearer ")
		login, ok := f.Toks[at]
		if !ok {
			w.WriteHeader(401)
			return
		}
		w.Header().Set("Content-Type", "application/json")
		fmt.Fprintf(w, `{"login":%q,"email":"%s@idp.test","name":%q}`, login, login, login)
	default:
		w.WriteHeader(404)
	}
}

// ------------------------------------------------------------------ soft TOTP

func verifTOTPCode(secret string, t time.Time) string {
	c, err := totp.GenerateCode(secret, t)
	if err != nil {
		panic(err)
	}
	return c
}

// ------------------------------------------------------------------ soft U2F token (FIDO U2F 1.2 raw messages)

type verifU2FToken struct {
	Key       *ecdsa.PrivateKey
	KeyHandle []byte
	Counter   uint32
	attKey    *ecdsa.PrivateKey
	attCert   []byte
}

func newVerifU2FToken() *verifU2FToken {
	k, _ := ecdsa.GenerateKey(elliptic.P256(), rand.Reader)
	ak, _ := ecdsa.GenerateKey(elliptic.P256(), rand.Reader)
	kh := make([]byte, 32)
	rand.Read(kh)
	tmpl := &x509.Certificate{SerialNumber: big.NewInt(1), Subject: pkix.Name{CommonName: "verif soft token"},
		NotBefore: time.Now().Add(-time.Hour), NotAfter: time.Now().Add(1000 * time.Hour)}
	der, err := x509.CreateCertificate(rand.Reader, tmpl, tmpl, &ak.PublicKey, ak)
	if err != nil {
		panic(err)
	}
	return &verifU2FToken{Key: k, KeyHandle: kh, attKey: ak, attCert: der}
}

func b64u(b []byte) string { return base64.RawURLEncoding.EncodeToString(b) }

func ecdsaSignASN1(k *ecdsa.PrivateKey, msg []byte) []byte {
	h := sha256.Sum256(msg)
	sig, err := ecdsa.SignASN1(rand.Reader, k, h[:])
	if err != nil {
		panic(err)
	}
	return sig
}

// RegisterResponse answers a u2f.WebRegisterRequest challenge for appID.
func (t *verifU2FToken) RegisterResponse(appID, challenge string) map[string]string {
	clientData := fmt.Sprintf(`{"typ":"navigator.id.finishEnrollment","challenge":%q,"origin":%q}`, challenge, appID)
	appParam := sha256.Sum256([]byte(appID))
	chalParam := sha256.Sum256([]byte(clientData))
	pub := elliptic.Marshal(elliptic.P256(), t.Key.X, t.Key.Y)
	var toSign []byte
	toSign = append(toSign, 0)
	toSign = append(toSign, appParam[:]...)
	toSign = append(toSign, chalParam[:]...)
	toSign = append(toSign, t.KeyHandle...)
	toSign = append(toSign, pub...)
	sig := ecdsaSignASN1(t.attKey, toSign)
	var reg []byte
	reg = append(reg, 0x05)
	reg = append(reg, pub...)
	reg = append(reg, byte(len(t.KeyHandle)))
	reg = append(reg, t.KeyHandle...)
	reg = append(reg, t.attCert...)
	reg = append(reg, sig...)
	return map[string]string{"registrationData": b64u(reg), "clientData": b64u([]byte(clientData)), "version": "U2F_V2"}
}

// SignResponse answers a u2f sign challenge.
func (t *verifU2FToken) SignResponse(appID, challenge string) map[string]string {
	clientData := fmt.Sprintf(`{"typ":"navigator.id.getAssertion","challenge":%q,"origin":%q}`, challenge, appID)
	appParam := sha256.Sum256([]byte(appID))
	chalParam := sha256.Sum256([]byte(clientData))
	t.Counter++
	var ctr [4]byte
	binary.BigEndian.PutUint32(ctr[:], t.Counter)
	var toSign []byte
	toSign = append(toSign, appParam[:]...)
	toSign = append(toSign, 0x01)
	toSign = append(toSign, ctr[:]...)
	toSign = append(toSign, chalParam[:]...)
	sig := ecdsaSignASN1(t.Key, toSign)
	var sd []byte
	sd = append(sd, 0x01)
	sd = append(sd, ctr[:]...)
	sd = append(sd, sig...)
	return map[string]string{"keyHandle": b64u(t.KeyHandle), "clientData": b64u([]byte(clientData)), "signatureData": b64u(sd)}
}

// WebAuthnAssertion answers a WebAuthn assertion challenge for a fido-u2f
// credential (rpIdHash = SHA-256(appID) through the appid extension).
func (t *verifU2FToken) WebAuthnAssertion(appID, origin, challenge string) []byte {
	clientData := fmt.Sprintf(`{"type":"webauthn.get","challenge":%q,"origin":%q,"crossOrigin":false}`, challenge, origin)
	rpHash := sha256.Sum256([]byte(appID))
	t.Counter++
	var ctr [4]byte
	binary.BigEndian.PutUint32(ctr[:], t.Counter)
	var authData []byte
	authData = append(authData, rpHash[:]...)
	authData = append(authData, 0x01) // user present
	authData = append(authData, ctr[:]...)
	cdHash := sha256.Sum256([]byte(clientData))
	sig := ecdsaSignASN1(t.Key, append(append([]byte{}, authData...), cdHash[:]...))
	out, _ := json.Marshal(map[string]interface{}{
		"id": b64u(t.KeyHandle), "rawId": b64u(t.KeyHandle), "type": "public-key",
		"response": map[string]string{"authenticatorData": b64u(authData), "clientDataJSON": b64u([]byte(clientData)),
			"signature": b64u(sig), "userHandle": ""},
		"clientExtensionResults": map[string]interface{}{"appid": true},
	})
	return out
}

// ------------------------------------------------------------------ fake SMTP

// verifFakeSMTP is the operator's mail relay: it accepts any message and keeps it.
type verifFakeSMTP struct {
	L    net.Listener
	mu   sync.Mutex
	Msgs []string
}

func newVerifFakeSMTP() (*verifFakeSMTP, error) {
	l, err := net.Listen("tcp", "127.0.0.1:0")
	if err != nil {
		return nil, err
	}
	s := &verifFakeSMTP{L: l}
	go func() {
		for {
			c, err := l.Accept()
			if err != nil {
				return
			}
			go s.serve(c)
		}
	}()
	return s, nil
}

func (s *verifFakeSMTP) Addr() string { return s.L.Addr().String() }

func (s *verifFakeSMTP) Count() int {
	s.mu.Lock()
	defer s.mu.Unlock()
	return len(s.Msgs)
}

func (s *verifFakeSMTP) serve(c net.Conn) {
	defer c.Close()
	c.SetDeadline(time.Now().Add(20 * time.Second))
	r := bufio.NewReader(c)
	// a relay is never instantaneous; the daemon's sendMail() hands the result over with a non-blocking channel send and
	// loses it (then waits out its 15 s timer) when the relay answers before the caller has started waiting
	time.Sleep(150 * time.Millisecond)
	fmt.Fprintf(c, "220 verif ESMTP\r\n")
	for {
		line, err := r.ReadString('\n')
		if err != nil {
			return
		}
		cmd := strings.ToUpper(strings.TrimSpace(line))
		switch {
		case strings.HasPrefix(cmd, "EHLO"), strings.HasPrefix(cmd, "HELO"):
			fmt.Fprintf(c, "250 verif\r\n")
		case strings.HasPrefix(cmd, "DATA"):
			fmt.Fprintf(c, "354 go\r\n")
			var b strings.Builder
			for {
				l2, err := r.ReadString('\n')
				if err != nil {
					return
				}
				if strings.TrimRight(l2, "\r\n") == "." {
					break
				}
				b.WriteString(l2)
			}
			s.mu.Lock()
			s.Msgs = append(s.Msgs, b.String())
			s.mu.Unlock()
			fmt.Fprintf(c, "250 queued\r\n")
		case strings.HasPrefix(cmd, "QUIT"):
			fmt.Fprintf(c, "221 bye\r\n")
			return
		default:
			fmt.Fprintf(c, "250 ok\r\n")
		}
	}
}
