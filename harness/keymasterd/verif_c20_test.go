package main

// C20 (publication part) - every certificate the daemon signs is published to
// connected event subscribers with exactly the bytes returned to the requester,
// no later than the response, along with web / service-provider logins; a slow
// subscriber never blocks issuance.
//
// A subscriber connects exactly as keymaster-eventmond does (CONNECT
// /eventmon/v0 on the admin port).  After each operation the harness publishes
// a sentinel event; the subscriber's FIFO must contain the certificate event
// before the sentinel (ordering decides, not a timeout).

import (
	"bufio"
	"bytes"
	"crypto/ecdsa"
	"crypto/elliptic"
	"crypto/rand"
	"crypto/tls"
	"encoding/base64"
	"encoding/json"
	"encoding/pem"
	"fmt"
	"net"
	"net/http/httptest"
	"net/url"
	"os"
	"strings"
	"sync"
	"sync/atomic"
	"syscall"
	"testing"
	"time"
)

type c20Event struct {
	Type               string
	CertData           []byte `json:",omitempty"`
	AuthType           string `json:",omitempty"`
	ServiceProviderUrl string `json:",omitempty"`
	Username           string `json:",omitempty"`
	VIPAuthType        string `json:",omitempty"`
}

type c20Subscriber struct {
	conn   net.Conn
	raw    net.Conn
	br     *bufio.Reader
	reads  bool
	mu     sync.Mutex
	events []c20Event
	cond   *sync.Cond
	err    error
	paused, started bool
}

func c20Connect(addr string, read bool) (*c20Subscriber, error) {
	return c20ConnectOpts(addr, read, !read)
}

var c20RegSeq int64

// c20ConnectOpts connects a subscriber and returns once the daemon really delivers to it.  The daemon answers
// "200 Connected" before it adds the connection to its list of subscribers; an event published in between is not
// owed to this subscriber (it was not connected yet) - and on a loaded machine "in between" can be long.  So marker
// events are published until one comes through, and only then does the scenario start.  A subscriber that is not
// to read (read == false) stops reading after that marker.
func c20ConnectOpts(addr string, read, smallBuffer bool) (*c20Subscriber, error) {
	s, err := c20Dial(addr, smallBuffer)
	if err != nil {
		return nil, err
	}
	s.reads = read
	if smallBuffer && !read {
		// the subscriber that never reads takes nothing off the wire, not even a marker (reading a little through a
		// 2 kB window and stopping leaves the connection trickling for minutes once it reads again).  If the daemon
		// has not registered it when the filler starts it merely gets less filler; nothing is judged on that.
		return s, nil
	}
	s.startReading()
	reg := fmt.Sprintf("registered-%d", atomic.AddInt64(&c20RegSeq, 1))
	isReg := func(e c20Event) bool { return e.Type == "Auth" && e.AuthType == "verif-sentinel" && e.Username == reg }
	ok := false
	for i := 0; i < 1500 && !ok; i++ {
		verifPublishSentinel(reg)
		ok = s.waitEvent(isReg, 10*time.Millisecond)
	}
	if !ok {
		s.conn.Close()
		return nil, fmt.Errorf("subscriber was connected but no marker event reached it within 15 s")
	}
	// forget the markers: the scenarios start from an empty list
	s.mu.Lock()
	s.paused = !read
	kept := s.events[:0]
	for _, e := range s.events {
		if !isReg(e) {
			kept = append(kept, e)
		}
	}
	s.events = kept
	s.mu.Unlock()
	return s, nil
}

// c20Dial: TLS, CONNECT, status line.  Nothing is read after that (engine B uses it directly: its daemon is another
// process, there is no marker to publish).
func c20Dial(addr string, smallBuffer bool) (*c20Subscriber, error) {
	raw, err := net.DialTimeout("tcp", addr, 10*time.Second)
	if err != nil {
		return nil, err
	}
	if smallBuffer {
		// a subscriber that never reads: a small receive buffer, so that the daemon's per-subscriber queue (not the
		// kernel) is what fills up after a few dozen events
		if tc, ok := raw.(*net.TCPConn); ok {
			tc.SetReadBuffer(2048)
		}
	}
	conn := tls.Client(raw, &tls.Config{InsecureSkipVerify: true})
	if err := conn.Handshake(); err != nil {
		raw.Close()
		return nil, err
	}
	fmt.Fprintf(conn, "CONNECT /eventmon/v0 HTTP/1.0\n\n")
	br := bufio.NewReader(conn)
	status, err := br.ReadString('\n')
	if err != nil || !strings.Contains(status, "200 Connected to keymaster eventmon service") {
		conn.Close()
		return nil, fmt.Errorf("connect: %q %v", status, err)
	}
	br.ReadString('\n')
	s := &c20Subscriber{conn: conn, raw: raw, br: br}
	s.cond = sync.NewCond(&s.mu)
	return s, nil
}

// startReading starts the reading goroutine, or lets a paused one read on.  A paused reader finishes the read it is
// blocked in (at most one more event is taken off the wire) and then waits.
func (s *c20Subscriber) startReading() {
	s.mu.Lock()
	s.paused = false
	started := s.started
	s.started = true
	s.cond.Broadcast()
	s.mu.Unlock()
	if started {
		return
	}
	go func() {
		dec := json.NewDecoder(s.br)
		for {
			s.mu.Lock()
			for s.paused {
				s.cond.Wait()
			}
			s.mu.Unlock()
			var ev c20Event
			if err := dec.Decode(&ev); err != nil {
				s.mu.Lock()
				s.err = err
				s.cond.Broadcast()
				s.mu.Unlock()
				return
			}
			s.mu.Lock()
			s.events = append(s.events, ev)
			s.cond.Broadcast()
			s.mu.Unlock()
		}
	}()
}

// waitCert waits until an event carrying exactly these certificate bytes has been received.
func (s *c20Subscriber) waitCert(der []byte, maxWait time.Duration) bool {
	deadline := time.Now().Add(maxWait)
	s.mu.Lock()
	defer s.mu.Unlock()
	from := 0
	for {
		for ; from < len(s.events); from++ {
			if bytes.Equal(s.events[from].CertData, der) {
				return true
			}
		}
		if s.err != nil || time.Now().After(deadline) {
			return false
		}
		go func() { time.Sleep(20 * time.Millisecond); s.cond.Broadcast() }()
		s.cond.Wait()
	}
}

func (s *c20Subscriber) waitEvent(f func(e c20Event) bool, maxWait time.Duration) bool {
	deadline := time.Now().Add(maxWait)
	s.mu.Lock()
	defer s.mu.Unlock()
	from := 0
	for {
		for ; from < len(s.events); from++ {
			if f(s.events[from]) {
				return true
			}
		}
		if s.err != nil || time.Now().After(deadline) {
			return false
		}
		go func() { time.Sleep(10 * time.Millisecond); s.cond.Broadcast() }()
		s.cond.Wait()
	}
}

// waitLast waits until the most recently received event satisfies f (cheap on long lists: only the tail is looked at).
func (s *c20Subscriber) waitLast(f func(e c20Event) bool, maxWait time.Duration) bool {
	deadline := time.Now().Add(maxWait)
	s.mu.Lock()
	defer s.mu.Unlock()
	for {
		for i := len(s.events) - 1; i >= 0 && i >= len(s.events)-4; i-- {
			if f(s.events[i]) {
				return true
			}
		}
		if s.err != nil || time.Now().After(deadline) {
			return false
		}
		go func() { time.Sleep(5 * time.Millisecond); s.cond.Broadcast() }()
		s.cond.Wait()
	}
}

func (s *c20Subscriber) has(f func(e c20Event) bool) bool {
	s.mu.Lock()
	defer s.mu.Unlock()
	for _, e := range s.events {
		if f(e) {
			return true
		}
	}
	return false
}

func (s *c20Subscriber) received() int {
	s.mu.Lock()
	defer s.mu.Unlock()
	return len(s.events)
}

// upTo waits for the sentinel and returns every event received before it
// (since the previous sentinel).
func (s *c20Subscriber) upTo(sentinel string, maxWait time.Duration) ([]c20Event, bool) {
	deadline := time.Now().Add(maxWait)
	s.mu.Lock()
	defer s.mu.Unlock()
	for {
		for i, e := range s.events {
			if e.Type == "Auth" && e.AuthType == "verif-sentinel" && e.Username == sentinel {
				out := append([]c20Event{}, s.events[:i]...)
				s.events = append([]c20Event{}, s.events[i+1:]...)
				return out, true
			}
		}
		if s.err != nil || time.Now().After(deadline) {
			return nil, false
		}
		go func() { time.Sleep(50 * time.Millisecond); s.cond.Broadcast() }()
		s.cond.Wait()
	}
}

func TestVerifC20(t *testing.T) {
	rep := newVerifReport("C20", "(publication) a subscriber connected like keymaster-eventmond (CONNECT /eventmon/v0 on the admin port); for every issuing path (certgen ssh/x509/kubernetes with several key types, automation mint, automation refresh, cloud role) and for password login, web login, second-factor and service-provider login events: operation, then sentinel; the certificate / login event must be in the subscriber's FIFO before the sentinel with bytes equal to those returned; with 0..3 subscribers one of which never reads (small receive buffer, so the daemon's queue for it overflows), a burst of issuances must complete and every certificate of it must reach each subscriber that reads, and the non-reading one, once it has caught up, must be served again; class = (path or event kind, subscribers, outcome)")
	defer rep.Finish()
	verifInstallFakeSTS()
	vip := newVerifFakeVIP()
	defer vip.Server.Close()
	oidc := "aws_certs:\n    allowed_accounts: [\"123456789012\"]\nopenid_connect_idp:\n    clients:\n        - client_id: \"client-a\"\n          client_secret: \"secret-a\"\n          allowed_redirect_domains: [\"example.com\"]\n"
	env, err := verifNewEnv(verifStateOpts{Name: "c20", Users: map[string]string{"alice": "alice-pw", "root1": "root1-pw"}, AllowedCerts: []string{"password", "IPCertificate"},
		AllowedWebUI: []string{"password"}, AdminUsers: []string{"root1"}, AutomationUsers: []string{"autobot"}, Ed25519: true, VIP: true, EnableTOTP: true, ExtraTop: oidc})
	if err != nil {
		t.Fatal(err)
	}
	env.InstallFakeVIP(vip)
	vip.SetOTP("alice", 777777)
	adm := httptest.NewUnstartedServer(env.Adm)
	adm.StartTLS()
	defer adm.Close()
	addr := adm.Listener.Addr().String()
	sub, err := c20Connect(addr, true)
	if err != nil {
		t.Fatal(err)
	}
	seq := 0
	// op runs f, then publishes a sentinel, and returns the events seen before it
	op := func(f func()) ([]c20Event, bool) {
		seq++
		f()
		name := fmt.Sprintf("sentinel-%d", seq)
		verifPublishSentinel(name)
		return sub.upTo(name, 20*time.Second)
	}
	aliceCk, _ := verifLogin(env, "alice", "alice-pw")
	rootCk, _ := verifLogin(env, "root1", "root1-pw")
	// drain the login events
	op(func() {})
	type issued struct {
		path string
		der  []byte // bytes that must appear in the event
		typ  string
		code int
	}
	check := func(name string, evs []c20Event, ok bool, want issued) {
		rep.Eval(fmt.Sprintf("publish|%s|%d|events=%d", name, want.code, len(evs)))
		if !ok {
			rep.Inconc("sentinel after %s was not received (subscriber stalled)", name)
			return
		}
		if want.code != 200 {
			// nothing was signed: nothing may be published as a certificate
			for _, e := range evs {
				if len(e.CertData) > 0 {
					rep.Violate("C20/published-without-issuance/"+name, "a certificate event was published although the request was refused", map[string]interface{}{"path": name, "status": want.code})
				}
			}
			return
		}
		found := false
		for _, e := range evs {
			if e.Type == want.typ && bytes.Equal(e.CertData, want.der) {
				found = true
			}
		}
		c := map[string]interface{}{"path": name, "event_types_seen": evTypes(evs), "cert_bytes": len(want.der)}
		if !found {
			why := "not-published"
			for _, e := range evs {
				if len(e.CertData) > 0 {
					why = "different-bytes"
				}
			}
			rep.Violate("C20/"+why+"/"+name, "a certificate was returned to the requester but the subscriber did not receive an event with the same bytes before the next event", c)
		} else {
			rep.Count("published_"+name, 1)
			rep.Count("published_total", 1)
			rep.Sample("published:"+name, 1, c)
		}
	}
	sshBytes := func(body []byte) []byte {
		f := strings.Fields(string(body))
		if len(f) < 2 {
			return nil
		}
		b, _ := base64.StdEncoding.DecodeString(f[1])
		return b
	}
	pemBytes := func(body []byte) []byte {
		b, _ := pem.Decode(body)
		if b == nil {
			return nil
		}
		return b.Bytes
	}
	rounds := 2
	if verifThorough() {
		rounds = 30
	}
	// automation certificate for the refresh path
	var roleTLS *tls.ConnectionState
	for r := 0; r < rounds; r++ {
		for _, k := range verifAllUserKeys() {
			for _, ct := range []string{"ssh", "x509", "x509-kubernetes"} {
				if ct == "ssh" && (strings.Contains(k.SSHAlg, "nistp384") || strings.Contains(k.SSHAlg, "nistp521")) {
					continue
				}
				kd := k.PKIX
				if ct == "ssh" {
					kd = k.SSH
				}
				var resp *verifResp
				evs, ok := op(func() {
					q := verifCertReq("alice", ct, kd, "1h", nil)
					q.Cookies = verifCk(aliceCk)
					resp = env.Do(q.Build())
				})
				w := issued{path: "certgen-" + ct, code: resp.Code}
				if ct == "ssh" {
					w.der, w.typ = sshBytes(resp.Body), "SSHCert"
				} else {
					w.der, w.typ = pemBytes(resp.Body), "X509Cert"
				}
				check("certgen-"+ct, evs, ok, w)
			}
		}
		// refused requests publish nothing
		{
			var resp *verifResp
			evs, ok := op(func() {
				q := verifCertReq("alice", "ssh", verifSSHAuthorizedKey(verifUserECKey().Public()), "1h", nil)
				resp = env.Do(q.Build())
			})
			check("certgen-unauthenticated", evs, ok, issued{code: resp.Code})
		}
		// automation mint
		{
			var resp *verifResp
			evs, ok := op(func() {
				q := verifRoleMintReq("autobot", verifUserECKey().Public(), []string{"10.0.0.0/8"}, []string{"10.0.0.0/8"}, nil)
				q.Cookies = verifCk(rootCk)
				resp = env.Do(q.Build())
			})
			check("role-mint", evs, ok, issued{der: pemBytes(resp.Body), typ: "X509Cert", code: resp.Code})
			if resp.Code == 200 && roleTLS == nil {
				if c, err := verifParseX509PEM(resp.Body); err == nil {
					roleTLS = env.TLSFor(c)
				}
			}
		}
		if roleTLS != nil {
			var resp *verifResp
			evs, ok := op(func() {
				q := verifRoleRefreshReq(verifUserECKey().Public())
				q.TLS, q.RemoteAddr = roleTLS, "10.1.2.3:4000"
				resp = env.Do(q.Build())
			})
			check("role-refresh", evs, ok, issued{der: pemBytes(resp.Body), typ: "X509Cert", code: resp.Code})
		}
		// cloud role
		{
			var resp *verifResp
			evs, ok := op(func() {
				resp = env.Do(verifCloudRoleReq("123456789012", fmt.Sprintf("r%d", r), fmt.Sprintf("arn:aws:iam::123456789012:role/r%d", r), verifPKIXPEM(verifUserECKey().Public())).Build())
			})
			check("cloud-role", evs, ok, issued{der: pemBytes(resp.Body), typ: "X509Cert", code: resp.Code})
		}
		// login events
		loginEvent := func(name string, f func() *verifResp, match func(e c20Event) bool) {
			var resp *verifResp
			evs, ok := op(func() { resp = f() })
			rep.Eval(fmt.Sprintf("publish|%s|%d", name, resp.Code))
			if !ok {
				rep.Inconc("sentinel after %s not received", name)
				return
			}
			for _, e := range evs {
				if match(e) {
					rep.Count("login_events_published", 1)
					rep.Sample("published:"+name, 1, map[string]interface{}{"event": name, "types": evTypes(evs)})
					return
				}
			}
			rep.Violate("C20/login-event-not-published/"+name, "a login the daemon reports was not published before the next event", map[string]interface{}{"event": name, "status": resp.Code, "types": evTypes(evs)})
		}
		loginEvent("password-login", func() *verifResp {
			_, r := verifLogin(env, "alice", "alice-pw")
			return r
		}, func(e c20Event) bool { return e.Type == "Auth" && e.AuthType == "Password" && e.Username == "alice" })
		loginEvent("web-login", func() *verifResp {
			return env.Do(verifReq{Method: "POST", Path: "/api/v0/login", Form: url.Values{"username": {"alice"}, "password": {"alice-pw"}}, Header: map[string]string{"Accept": "text/html"}}.Build())
		}, func(e c20Event) bool { return e.Type == "WebLogin" && e.Username == "alice" })
		loginEvent("service-provider-login", func() *verifResp {
			qs := url.Values{"response_type": {"code"}, "client_id": {"client-a"}, "scope": {"openid"}, "redirect_uri": {"https://app.example.com/cb"}, "state": {"s"}, "nonce": {"nonce-123456"}}
			return env.Do(verifReq{Path: "/idp/oauth2/authorize?" + qs.Encode(), Cookies: verifCk(aliceCk)}.Build())
		}, func(e c20Event) bool {
			return e.Type == "ServiceProviderLogin" && e.Username == "alice" && e.ServiceProviderUrl == "https://app.example.com/cb"
		})
		loginEvent("vip-otp", func() *verifResp {
			return env.Do(verifReq{Method: "POST", Path: "/api/v0/vipAuth", Form: url.Values{"OTP": {"777777"}}, Cookies: verifCk(aliceCk)}.Build())
		}, func(e c20Event) bool { return e.Type == "Auth" && e.AuthType == "SymantecVIP" && e.Username == "alice" })
	}
	// ---- a subscriber that pauses briefly (well within the daemon's 16-entry queue for it) while several certificates
	// are issued back to back, then reads on: it must get exactly those certificates, byte for byte, in issuing order
	{
		rounds := 6
		if verifThorough() {
			rounds = 60
		}
		for r := 0; r < rounds; r++ {
			s, err := c20ConnectOpts(addr, false, false)
			if err != nil {
				rep.Inconc("paused subscriber: %v", err)
				break
			}
			k := 3 + r%8
			var issuedDER [][]byte
			for i := 0; i < k; i++ {
				key, _ := ecdsa.GenerateKey(elliptic.P256(), rand.Reader)
				q := verifCertReq("alice", "x509", verifPKIXPEM(key.Public()), "1h", nil)
				q.Cookies = verifCk(aliceCk)
				resp := env.Do(q.Build())
				if cert, err := verifParseX509PEM(resp.Body); resp.Code == 200 && err == nil {
					issuedDER = append(issuedDER, cert.Raw)
				}
			}
			name := fmt.Sprintf("paused-%d", r)
			verifPublishSentinel(name)
			s.startReading()
			evs, ok := s.upTo(name, 20*time.Second)
			s.conn.Close()
			if !ok {
				rep.Inconc("paused subscriber: the sentinel after %d certificates was not received", k)
				continue
			}
			var got [][]byte
			for _, e := range evs {
				if e.Type == "X509" || (len(e.CertData) > 0 && e.Type != "SSH") {
					got = append(got, e.CertData)
				}
			}
			same := len(got) == len(issuedDER)
			for i := 0; same && i < len(got); i++ {
				same = bytes.Equal(got[i], issuedDER[i])
			}
			rep.Eval(fmt.Sprintf("paused-subscriber|k=%d|exact=%v", k, same))
			rep.Count("paused_subscriber_rounds", 1)
			if !same {
				mism := -1
				for i := 0; i < len(got) && i < len(issuedDER); i++ {
					if !bytes.Equal(got[i], issuedDER[i]) {
						mism = i
						break
					}
				}
				rep.Violate("C20/queued-certificates-differ-from-issued", "a subscriber that paused while several certificates were issued received certificate events that are not, byte for byte and in order, the certificates returned to the requester",
					map[string]interface{}{"issued": len(issuedDER), "received": len(got), "first_mismatch_at": mism})
			}
		}
	}
	// ---- certificates issued at the same moment by concurrent requests: a reading subscriber gets each of them exactly
	// once with the bytes returned to its requester (the order among concurrent issuances is free)
	{
		rounds, par := 25, 8
		if verifThorough() {
			rounds = 300
		}
		s, err := c20Connect(addr, true)
		if err != nil {
			rep.Inconc("concurrent issuance subscriber: %v", err)
		} else {
			for r := 0; r < rounds; r++ {
				ders := make([][]byte, par)
				var wgp sync.WaitGroup
				startp := make(chan struct{})
				for i := 0; i < par; i++ {
					wgp.Add(1)
					go func(i int) {
						defer wgp.Done()
						key, _ := ecdsa.GenerateKey(elliptic.P256(), rand.Reader)
						q := verifCertReq("alice", "x509", verifPKIXPEM(key.Public()), "1h", nil)
						q.Cookies = verifCk(aliceCk)
						req := q.Build()
						<-startp
						resp := env.Do(req)
						if cert, err := verifParseX509PEM(resp.Body); resp.Code == 200 && err == nil {
							ders[i] = cert.Raw
						}
					}(i)
				}
				close(startp)
				wgp.Wait()
				name := fmt.Sprintf("concurrent-%d", r)
				verifPublishSentinel(name)
				evs, ok := s.upTo(name, 20*time.Second)
				if !ok {
					rep.Inconc("concurrent issuance: sentinel of round %d not received", r)
					break
				}
				seen := map[string]int{}
				for _, e := range evs {
					if len(e.CertData) > 0 {
						seen[string(e.CertData)]++
					}
				}
				missing, dup, issuedN := 0, 0, 0
				for _, d := range ders {
					if d == nil {
						continue
					}
					issuedN++
					switch n := seen[string(d)]; {
					case n == 0:
						missing++
					case n > 1:
						dup++
					}
				}
				rep.Eval(fmt.Sprintf("concurrent-issuance|issued=%d|missing=%v|duplicated=%v", issuedN, missing > 0, dup > 0))
				rep.Count("concurrent_issuance_rounds", 1)
				if missing > 0 || dup > 0 {
					rep.Violate("C20/concurrent-issuance/events-differ-from-issued", fmt.Sprintf("%d certificates issued at the same moment: %d were never published with their own bytes, %d were published more than once", issuedN, missing, dup),
						map[string]interface{}{"round": r, "issued": issuedN, "certificate_events_received": len(seen)})
					break
				}
			}
			s.conn.Close()
		}
	}
	// ---- a slow subscriber never blocks issuance: 0..3 subscribers, one never reads
	burst := 120
	if verifThorough() {
		burst = 2000
	}
	for nSubs := 0; nSubs <= 3; nSubs++ {
		var subs []*c20Subscriber
		for i := 0; i < nSubs; i++ {
			s, err := c20Connect(addr, i != 0) // subscriber 0 never reads
			if err == nil {
				subs = append(subs, s)
			}
		}
		// fill the path to the non-reading subscriber beyond anything the kernel can buffer (its send-buffer ceiling
		// plus a margin), so that the daemon's own queue for it is full when the certificates are issued; reading
		// subscribers are waited for after every event and never have more than one outstanding
		if nSubs >= 1 {
			fill := 4 << 20
			if b, err := os.ReadFile("/proc/sys/net/ipv4/tcp_wmem"); err == nil {
				if f := strings.Fields(string(b)); len(f) == 3 {
					var v int
					fmt.Sscanf(f[2], "%d", &v)
					if v > 0 && v < 64<<20 {
						fill = v
					}
				}
			}
			fill += 2 << 20
			pad := strings.Repeat("p", 64<<10)
			for k := 0; k*len(pad) < fill; k++ {
				name := fmt.Sprintf("fill-%d-%d-%s", nSubs, k, pad)
				verifPublishSentinel(name)
				for _, s := range subs {
					if s.reads {
						s.waitEvent(func(e c20Event) bool { return e.AuthType == "verif-sentinel" && e.Username == name }, 2*time.Second)
					}
				}
			}
			rep.Extra[fmt.Sprintf("filler_bytes_published:subscribers=%d", nSubs)] = fill
			// the kernel's buffers are full now; 3000 small events more fill whatever queue the daemon itself keeps for
			// the stalled subscriber (16 entries today; the scenario should not depend on that number), the reading
			// subscribers being waited for after each one (their queues have the same length)
			missedInARow := 0
			for k := 0; k < 3000 && missedInARow < 3; k++ {
				name := fmt.Sprintf("tail-%d-%d", nSubs, k)
				verifPublishSentinel(name)
				for _, s := range subs {
					if s.reads {
						if s.waitLast(func(e c20Event) bool { return e.AuthType == "verif-sentinel" && e.Username == name }, 2*time.Second) {
							missedInARow = 0
						} else {
							// a reading subscriber that does not get these events is what the burst below is about to
							// decide (by order); no point in pacing 3 000 events at 2 s each
							missedInARow++
						}
					}
				}
			}
		}
		type burstRes struct {
			ok      int
			starved map[string]interface{}
			missed  bool
		}
		done := make(chan burstRes, 1)
		go func() {
			var res burstRes
			for i := 0; i < burst; i++ {
				q := verifCertReq("alice", "x509", verifPKIXPEM(verifUserECKey().Public()), "1h", nil)
				q.Cookies = verifCk(aliceCk)
				resp := env.Do(q.Build())
				if resp.Code != 200 {
					continue
				}
				res.ok++
				// every subscriber that reads - and that is waited for after each certificate, so it never has more
				// than one event outstanding - must receive each certificate, whatever the non-reading one does
				cert, err := verifParseX509PEM(resp.Body)
				if err != nil {
					continue
				}
				for si, s := range subs {
					if !s.reads {
						continue
					}
					if s.waitCert(cert.Raw, 5*time.Second) {
						rep.Count("burst_deliveries_to_reading_subscribers", 1)
						continue
					}
					// not there yet: decide by order, not by time - later events that do arrive prove it was skipped
					res.missed = true
					later := false
					for k := 0; k < 60 && !later; k++ {
						name := fmt.Sprintf("burst-end-%d-%d-%d", nSubs, i, k)
						verifPublishSentinel(name)
						time.Sleep(50 * time.Millisecond)
						later = s.has(func(e c20Event) bool { return e.Type == "Auth" && e.AuthType == "verif-sentinel" && e.Username == name })
					}
					if later && !s.waitCert(cert.Raw, 0) {
						res.starved = map[string]interface{}{"subscribers": nSubs, "reading_subscriber": si, "certificate_number": i, "non_reading_subscribers": 1,
							"note": "a later event reached this subscriber, the certificate never did"}
					}
					break
				}
				if res.missed {
					break
				}
			}
			done <- res
		}()
		select {
		case res := <-done:
			n := res.ok
			rep.Eval(fmt.Sprintf("burst|subscribers=%d|completed=%v|starved=%v", nSubs, n == burst, res.starved != nil))
			rep.Count("burst_issuances", n)
			switch {
			case res.starved != nil:
				rep.Violate("C20/reading-subscriber-starved-by-stalled-one", "with one subscriber not reading, a certificate was not published to a subscriber that reads promptly", res.starved)
			case res.missed:
				rep.Inconc("burst with %d subscribers: a certificate did not reach a reading subscriber within 5 s and no later event arrived either (not judged)", nSubs)
			case n != burst:
				rep.Violate("C20/burst-failures", fmt.Sprintf("%d of %d issuances failed with %d subscribers", burst-n, burst, nSubs), nil)
			}
		case <-time.After(180 * time.Second):
			// only a goroutine blocked in the notifier is a violation; otherwise inconclusive
			buf := make([]byte, 1<<20)
			n := runtimeStack(buf)
			dump := string(buf[:n])
			if strings.Contains(dump, "eventnotifier.(*EventNotifier).publishCert") || strings.Contains(dump, "eventnotifier.(*EventNotifier).transmitEvent") {
				rep.Violate("C20/slow-subscriber-blocks-issuance", "issuance is blocked inside the event notifier while a subscriber does not read", map[string]int{"subscribers": nSubs})
			} else {
				rep.Inconc("burst with %d subscribers did not finish within the watchdog", nSubs)
			}
		}
		// how much of the burst the non-reading subscriber would still get: less than everything means its queue in the
		// daemon was full during the burst (the situation the clause is about)
		for _, s := range subs {
			if s.reads {
				continue
			}
			if tc, ok := s.raw.(*net.TCPConn); ok {
				tc.SetReadBuffer(4 << 20) // it reads now, and at an ordinary pace
				// (the window clamp was derived from the 2 kB buffer at connect time and does not follow SO_RCVBUF:
				// without lifting it the backlog trickles in at one probe every 200 ms)
				if rc, err := tc.SyscallConn(); err == nil {
					rc.Control(func(fd uintptr) { syscall.SetsockoptInt(int(fd), syscall.IPPROTO_TCP, syscall.TCP_WINDOW_CLAMP, 4<<20) })
				}
			}
			s.startReading()
			// caught up = an event published now comes through (delivery to one subscriber is first-in first-out, so
			// everything queued for it before has arrived by then); decided by that order, not by a pause in the flow -
			// after minutes of a closed window the flow may take seconds to restart
			// (If no marker comes through AND nothing at all has arrived for 30 s on the open connection, the backlog
			// is over as well - a daemon that has silently stopped serving this subscriber looks like that - and the
			// six certificates below decide.  A backlog that is still trickling in is neither: not judged.)
			caughtUp, silent := false, 0
			lastN := s.received()
			for k := 0; k < 2400 && !caughtUp && silent < 600; k++ {
				name := fmt.Sprintf("caught-up-%d-%d", nSubs, k)
				verifPublishSentinel(name)
				caughtUp = s.waitEvent(func(e c20Event) bool { return e.Type == "Auth" && e.AuthType == "verif-sentinel" && e.Username == name }, 50*time.Millisecond)
				if n := s.received(); n != lastN {
					lastN, silent = n, 0
				} else {
					silent++
				}
			}
			if !caughtUp && silent < 600 {
				rep.Inconc("the stalled subscriber was still receiving its backlog 120 s after it started reading again (subscribers=%d): recovery not judged", nSubs)
				continue
			}
			if !caughtUp {
				// silent because the daemon writes nothing to it any more, or because TCP has not restarted the flow
				// yet (zero-window probes back off)?  The kernel knows: bytes still queued on the daemon's side of this
				// connection mean the latter, and then nothing is judged.
				if q, found := c20PeerSendQueue(s.raw); !found || q > 0 {
					rep.Inconc("the stalled subscriber received nothing for 30 s after reading again while %d bytes were still queued towards it (found=%v, subscribers=%d): recovery not judged", q, found, nSubs)
					continue
				}
				rep.Count("stalled_subscriber_went_silent", 1)
			}
			got := 0
			s.mu.Lock()
			for _, e := range s.events {
				if len(e.CertData) > 0 {
					got++
				}
			}
			s.mu.Unlock()
			rep.Extra[fmt.Sprintf("non_reading_subscriber_got_of_burst:subscribers=%d", nSubs)] = fmt.Sprintf("%d/%d", got, burst)
			if got < burst {
				rep.Count("bursts_where_stalled_queue_overflowed", 1)
			}
			// the subscriber has caught up, is still connected and reads now: it is an ordinary subscriber again and
			// must get the certificates issued from here on.  Up to six certificates, 5 s each; the verdict needs all
			// of: connection still open, every always-reading subscriber received all of them, this one none.
			s.mu.Lock()
			closed := s.err != nil
			s.mu.Unlock()
			if closed {
				rep.Obs("the non-reading subscriber's connection was closed by the daemon after the burst (subscribers=%d): not judged", nSubs)
				continue
			}
			recovered, othersGotAll, tried := false, true, 0
			for k := 0; k < 6 && !recovered; k++ {
				q := verifCertReq("alice", "x509", verifPKIXPEM(verifUserECKey().Public()), "1h", nil)
				q.Cookies = verifCk(aliceCk)
				resp := env.Do(q.Build())
				cert, err := verifParseX509PEM(resp.Body)
				if resp.Code != 200 || err != nil {
					continue
				}
				tried++
				for _, o := range subs {
					if o.reads && o != s && !o.waitCert(cert.Raw, 5*time.Second) {
						othersGotAll = false
					}
				}
				recovered = s.waitCert(cert.Raw, 5*time.Second)
			}
			s.mu.Lock()
			closed = s.err != nil
			s.mu.Unlock()
			rep.Eval(fmt.Sprintf("burst|subscribers=%d|stalled-subscriber-recovered=%v", nSubs, recovered))
			switch {
			case recovered:
				rep.Count("stalled_subscribers_recovered", 1)
			case tried >= 6 && othersGotAll && !closed:
				rep.Violate("C20/recovered-subscriber-never-served-again", "a subscriber that fell behind, caught up and stayed connected received none of the 6 certificates issued afterwards (every other subscriber received all of them)",
					map[string]interface{}{"subscribers": nSubs, "certificates_issued_after_catch_up": tried})
			default:
				rep.Inconc("burst with %d subscribers: recovery of the non-reading subscriber could not be judged (issued %d, others complete=%v, closed=%v)", nSubs, tried, othersGotAll, closed)
			}
		}
		for _, s := range subs {
			s.conn.Close()
		}
	}
	for _, p := range []string{"certgen-ssh", "certgen-x509", "certgen-x509-kubernetes", "role-mint", "role-refresh", "cloud-role"} {
		rep.Floor("published_"+p, 1)
	}
	rep.Floor("login_events_published", 4)
	rep.Floor("burst_issuances", 300)
	rep.Floor("burst_deliveries_to_reading_subscribers", 200)
	rep.Floor("bursts_where_stalled_queue_overflowed", 1)
	rep.Floor("stalled_subscribers_recovered", 2)
	rep.Floor("paused_subscriber_rounds", 5)
	rep.Floor("concurrent_issuance_rounds", 20)
}

func evTypes(evs []c20Event) []string {
	var o []string
	for _, e := range evs {
		o = append(o, e.Type)
	}
	return o
}

// c20PeerSendQueue: the send-queue length (bytes written by the peer process and not yet acknowledged by us) of the
// other end of a loopback TCP connection, from /proc/net/tcp{,6}.
func c20PeerSendQueue(c net.Conn) (int64, bool) {
	la, ok1 := c.LocalAddr().(*net.TCPAddr)
	ra, ok2 := c.RemoteAddr().(*net.TCPAddr)
	if !ok1 || !ok2 {
		return 0, false
	}
	for _, f := range []string{"/proc/net/tcp", "/proc/net/tcp6"} {
		b, err := os.ReadFile(f)
		if err != nil {
			continue
		}
		for _, line := range strings.Split(string(b), "\n")[1:] {
			fs := strings.Fields(line)
			if len(fs) < 5 {
				continue
			}
			lp, rp := fs[1][strings.LastIndex(fs[1], ":")+1:], fs[2][strings.LastIndex(fs[2], ":")+1:]
			var lport, rport int64
			fmt.Sscanf(lp, "%X", &lport)
			fmt.Sscanf(rp, "%X", &rport)
			// the peer's socket: its local port is our remote port and vice versa
			if int(lport) == ra.Port && int(rport) == la.Port {
				var tx, rx int64
				fmt.Sscanf(fs[4], "%X:%X", &tx, &rx)
				return tx, true
			}
		}
	}
	return 0, false
}
