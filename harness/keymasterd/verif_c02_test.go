package main

// C02 - issued certificates bind the authenticated (normalised) user to the
// submitted key only.  Sessions come from the real login flow; every returned
// certificate is decoded independently and compared with (authenticated name,
// submitted key, published CA keys, configured extension templates).

import (
	"fmt"
	"strings"
	"testing"
	"time"

	"golang.org/x/crypto/ssh"
)

type c02Case struct {
	Config    string   `json:"config"`
	LoginAs   string   `json:"login_as"`
	User      string   `json:"normalised_user"`
	Target    string   `json:"target"`
	CertType  string   `json:"cert_type"`
	Key       string   `json:"key"`
	Status    int      `json:"status"`
	Entry     string   `json:"credential,omitempty"`
	Principal string   `json:"principal_or_cn,omitempty"`
	Defects   []string `json:"defects,omitempty"`
}

func c02UserNames(rng interface{ Intn(int) int }, n int) []string {
	names := []string{"alice", "bob.smith", "a-b_c+d", ".dot", "-dash", "x", "user+tag", "0numeric",
		strings.Repeat("l", 64), "mixed.case-name_1+z"}
	alpha := "abcdefghijklmnopqrstuvwxyz0123456789-._+"
	for len(names) < n {
		l := 1 + rng.Intn(20)
		b := make([]byte, l)
		for i := range b {
			b[i] = alpha[rng.Intn(len(alpha))]
		}
		names = append(names, string(b))
	}
	return names
}

func caseVariant(s string, rng interface{ Intn(int) int }) string {
	b := []byte(s)
	for i := range b {
		if b[i] >= 'a' && b[i] <= 'z' && rng.Intn(2) == 0 {
			b[i] -= 32
		}
	}
	return string(b)
}

func TestVerifC02(t *testing.T) {
	rep := newVerifReport("C02", "real login flow (session cookie, and Authorization: Basic on the issuing request itself with the name as typed) for generated user names (case variants, dots, dashes, plus, 64 chars) x key types x cert types x configurations (Kerberos realm, Ed25519 CA, extension templates, public-keys files that pre-list one of the own CA keys); every returned certificate decoded independently: principal/CN = normalised authenticated name, key = submitted key, end-entity user cert, verifies under published CA, SSH extensions = 5 standard + expanded configured; cross-user targets must be refused; class = (config, name shape, key type, cert type, outcome)")
	defer rep.Finish()
	rng := verifRand("c02")
	nUsers := 14
	if verifThorough() {
		nUsers = 200
	}
	names := c02UserNames(rng, nUsers)
	users := map[string]string{}
	for _, n := range names {
		users[n] = "pw-" + n
	}
	type cfg struct {
		name string
		opts verifStateOpts
		ext  map[string]string
	}
	extA := map[string]string{"login@github.com": "$USERNAME", "permit-as-${USERNAME}": "x-${USERNAME}-y", "literal-ext": "fixed value",
		"no-touch-required": "", "flag-for-$USERNAME@example.com": ""} // flag-style extensions have an empty value
	extYAML := func(m map[string]string) string {
		s := "    ssh_cert_config:\n        extensions:\n"
		for k, v := range m {
			s += fmt.Sprintf("            - key: %q\n              value: %q\n", k, v)
		}
		return s
	}
	cfgs := []cfg{
		{"plain", verifStateOpts{}, nil},
		{"realm+ed25519+ext", verifStateOpts{KerberosRealm: "VERIF.TEST", Ed25519: true, ExtraBase: extYAML(extA)}, extA},
		{"ecdsa-ca", verifStateOpts{CAKey: "ca_ec256", Ed25519: true}, nil},
		// an operator's public-keys file that already lists one of the daemon's own CA keys: every CA key that signs
		// must still be published
		{"ed25519+keys-file-lists-primary", verifStateOpts{Ed25519: true, PublicKeysFile: true, PublicKeysList: []string{"ca_rsa2048"}}, nil},
		{"ed25519+keys-file-lists-ed25519", verifStateOpts{Ed25519: true, PublicKeysFile: true, PublicKeysList: []string{"ca_ed25519", "foreign_rsa2048"}}, nil},
	}
	keys := verifAllUserKeys()
	for _, c := range cfgs {
		o := c.opts
		o.Name = "c02-" + c.name
		o.Users = users
		o.AllowedCerts = []string{"password"}
		o.AllowedWebUI = []string{"password"}
		env, err := verifNewEnv(o)
		if err != nil {
			t.Fatal(err)
		}
		trust, err := verifPublishedTrust(env)
		if err != nil {
			t.Fatal(err)
		}
		for ui, user := range names {
			loginAs := user
			if ui%2 == 1 {
				loginAs = caseVariant(user, rng)
			}
			cookie, lr := verifLogin(env, loginAs, users[user])
			if cookie == "" {
				rep.Inconc("login failed for %q as %q: %d", user, loginAs, lr.Code)
				continue
			}
			rep.Count("logins", 1)
			other := names[(ui+1)%len(names)]
			for ki, k := range keys {
				if !verifThorough() && (ui+ki)%3 != 0 && ui > 3 {
					continue // quick: thin the product for the generated names
				}
				for _, ct := range []string{"ssh", "x509", "x509-kubernetes"} {
					kd := k.PKIX
					if ct == "ssh" {
						kd = k.SSH
					}
					for ti, target := range []string{user, other, loginAs, user, loginAs} {
						if target == loginAs && loginAs == user {
							continue
						}
						// the last two rounds authenticate the request itself with an Authorization: Basic header carrying
						// the name as typed (no session): the certificate must still name the normalised user
						entry := "cookie"
						if ti >= 3 {
							entry = "basic"
							if !verifThorough() && ki > 1 {
								continue
							}
						}
						q := verifCertReq(target, ct, kd, "1h", nil)
						if entry == "cookie" {
							q.Cookies = map[string]string{"auth_cookie": cookie}
						} else {
							q.UseBasic, q.BasicUser, q.BasicPass = true, loginAs, users[user]
						}
						resp := env.Do(q.Build())
						cs := c02Case{Config: c.name, LoginAs: loginAs, User: user, Target: target,
							CertType: ct, Key: k.Name, Status: resp.Code, Entry: entry}
						shape := "plain"
						if strings.ContainsAny(user, ".-+_") {
							shape = "punct"
						}
						if len(user) >= 64 {
							shape = "long"
						}
						if loginAs != user {
							shape += "+case"
						}
						out := "refused"
						if resp.Code == 200 {
							out = "issued"
						}
						rel := "self"
						if target == other {
							rel = "other"
						} else if target != user {
							rel = "case-variant"
						}
						rep.Eval(fmt.Sprintf("%s|%s|%s|%s|%s|%s|%s", c.name, shape, k.Name, ct, rel, entry, out))
						if entry == "basic" && resp.Code == 200 {
							rep.Count("issued_to_basic_auth_requests", 1)
						}
						if resp.Panic != "" {
							rep.Violate("C02/panic", "handler panicked", cs)
							continue
						}
						if rel == "other" {
							rep.Count("cross_user_requests", 1)
							if resp.Code == 200 || len(verifSignedMaterial(resp)) > 0 {
								rep.Violate("C02/cross-user-issued/"+ct, "certificate issued on behalf of another user", cs)
							} else {
								rep.Sample("cross-user-refused", 1, cs)
							}
							continue
						}
						if resp.Code != 200 {
							if rel == "case-variant" {
								rep.Count("case_variant_target_refused", 1)
							}
							rep.Count("refused_"+ct+"_"+k.Name, 1)
							rep.Sample("refused:"+ct+":"+k.Name, 1, cs)
							continue
						}
						if rel == "case-variant" {
							rep.Count("case_variant_target_issued", 1)
						}
						// decode
						var defects []string
						if ct == "ssh" {
							cert, err := verifParseSSHCert(resp.Body)
							if err != nil {
								defects = []string{"unparsable SSH certificate: " + err.Error()}
							} else {
								sub, _, _, _, _ := ssh.ParseAuthorizedKey([]byte(k.SSH))
								defects = verifCheckSSHCert(cert, user, sub, trust, c.ext, time.Now())
								cs.Principal = strings.Join(cert.ValidPrincipals, ",")
							}
						} else {
							cert, err := verifParseX509PEM(resp.Body)
							if err != nil {
								defects = []string{"unparsable X.509 certificate: " + err.Error()}
							} else {
								defects = verifCheckX509UserCert(cert, user, k.Pub, trust)
								cs.Principal = cert.Subject.CommonName
							}
						}
						rep.Count("issued_"+ct, 1)
						rep.Count("issued_key_"+k.Name, 1)
						if len(defects) > 0 {
							cs.Defects = defects
							rep.Violate("C02/bad-certificate/"+ct+"/"+firstWord(defects[0]), strings.Join(defects, "; "), cs)
						} else {
							rep.Sample("issued:"+ct+":"+shape, 1, cs)
						}
					}
				}
			}
		}
		// the CA signing device starts failing (HSM / agent gone): nothing that is not properly signed may be handed out
		{
			user := names[0]
			cookie, _ := verifLogin(env, user, users[user])
			env.SetSignerFault(true)
			for _, k := range keys {
				for _, ct := range []string{"ssh", "x509", "x509-kubernetes"} {
					kd := k.PKIX
					if ct == "ssh" {
						kd = k.SSH
					}
					q := verifCertReq(user, ct, kd, "1h", nil)
					q.Cookies = map[string]string{"auth_cookie": cookie}
					resp := env.Do(q.Build())
					rep.Eval(fmt.Sprintf("%s|signer-fault|%s|%s|%d", c.name, k.Name, ct, resp.Code/100))
					rep.Count("signer_fault_requests", 1)
					cs := c02Case{Config: c.name, LoginAs: user, User: user, Target: user, CertType: ct, Key: k.Name, Status: resp.Code, Entry: "cookie (CA signer failing)"}
					if resp.Code != 200 {
						continue
					}
					var defects []string
					if ct == "ssh" {
						if cert, err := verifParseSSHCert(resp.Body); err != nil {
							defects = []string{"unparsable SSH certificate: " + err.Error()}
						} else {
							sub, _, _, _, _ := ssh.ParseAuthorizedKey([]byte(k.SSH))
							defects = verifCheckSSHCert(cert, user, sub, trust, c.ext, time.Now())
						}
					} else if cert, err := verifParseX509PEM(resp.Body); err != nil {
						defects = []string{"unparsable X.509 certificate: " + err.Error()}
					} else {
						defects = verifCheckX509UserCert(cert, user, k.Pub, trust)
					}
					if len(defects) > 0 {
						cs.Defects = defects
						rep.Violate("C02/bad-certificate-while-signer-fails/"+ct, "answered 200 while the CA signer was failing, with something that is not a properly signed certificate: "+strings.Join(defects, "; "), cs)
					}
				}
			}
			env.SetSignerFault(false)
		}
		if len(env.Panics) > 0 {
			rep.Count("panics", len(env.Panics))
		}
	}
	// a deployment that keeps user names as typed (disable_username_normalization): "Alice.Mixed" and "alice.mixed" are
	// two accounts; the certificate names the one that authenticated, byte for byte, and the other is refused
	{
		mixed, lower := "Alice.Mixed", "alice.mixed"
		env, err := verifNewEnv(verifStateOpts{Name: "c02-no-normalisation", Users: map[string]string{mixed: "pw-Mixed", lower: "pw-lower"},
			AllowedCerts: []string{"password"}, AllowedWebUI: []string{"password"}, DisableNormalize: true, Ed25519: true})
		if err != nil {
			t.Fatal(err)
		}
		trust, err := verifPublishedTrust(env)
		if err != nil {
			t.Fatal(err)
		}
		for _, who := range []string{mixed, lower} {
			pw := map[string]string{mixed: "pw-Mixed", lower: "pw-lower"}[who]
			cookie, lr := verifLogin(env, who, pw)
			if cookie == "" {
				rep.Inconc("case-sensitive deployment: login failed for %q: %d", who, lr.Code)
				continue
			}
			otherName := lower
			if who == lower {
				otherName = mixed
			}
			for ki, k := range keys {
				if !verifThorough() && ki > 2 {
					break
				}
				for _, ct := range []string{"ssh", "x509", "x509-kubernetes"} {
					kd := k.PKIX
					if ct == "ssh" {
						kd = k.SSH
					}
					for _, entry := range []string{"cookie", "basic"} {
						for _, target := range []string{who, otherName} {
							q := verifCertReq(target, ct, kd, "1h", nil)
							if entry == "cookie" {
								q.Cookies = map[string]string{"auth_cookie": cookie}
							} else {
								q.UseBasic, q.BasicUser, q.BasicPass = true, who, pw
							}
							resp := env.Do(q.Build())
							cs := c02Case{Config: "no-normalisation", LoginAs: who, User: who, Target: target, CertType: ct, Key: k.Name, Status: resp.Code, Entry: entry}
							rep.Eval(fmt.Sprintf("no-normalisation|%s|%s|%s|self=%v|%s|%d", who, k.Name, ct, target == who, entry, resp.Code/100))
							rep.Count("case_sensitive_requests", 1)
							if target != who {
								if resp.Code == 200 || len(verifSignedMaterial(resp)) > 0 {
									rep.Violate("C02/cross-user-issued/"+ct+"/case-sensitive-deployment", "certificate issued on behalf of the account that differs only in case", cs)
								}
								continue
							}
							if resp.Code != 200 {
								continue
							}
							var defects []string
							if ct == "ssh" {
								if cert, err := verifParseSSHCert(resp.Body); err != nil {
									defects = []string{"unparsable SSH certificate: " + err.Error()}
								} else {
									sub, _, _, _, _ := ssh.ParseAuthorizedKey([]byte(k.SSH))
									defects = verifCheckSSHCert(cert, who, sub, trust, nil, time.Now())
									cs.Principal = strings.Join(cert.ValidPrincipals, ",")
								}
							} else if cert, err := verifParseX509PEM(resp.Body); err != nil {
								defects = []string{"unparsable X.509 certificate: " + err.Error()}
							} else {
								defects = verifCheckX509UserCert(cert, who, k.Pub, trust)
								cs.Principal = cert.Subject.CommonName
							}
							rep.Count("case_sensitive_issued", 1)
							if len(defects) > 0 {
								cs.Defects = defects
								rep.Violate("C02/bad-certificate/"+ct+"/case-sensitive-deployment/"+firstWord(defects[0]), strings.Join(defects, "; "), cs)
							}
						}
					}
				}
			}
		}
		rep.Floor("case_sensitive_issued", 12)
	}
	rep.Floor("issued_ssh", 20)
	rep.Floor("issued_x509", 20)
	rep.Floor("issued_x509-kubernetes", 20)
	rep.Floor("cross_user_requests", 20)
	rep.Floor("issued_to_basic_auth_requests", 20)
	rep.Floor("signer_fault_requests", 30)
	for _, k := range []string{"rsa2048", "rsa4096", "ecP-256", "ed25519"} {
		rep.Floor("issued_key_"+k, 3)
	}
	rep.Assume("group lists (addGroups) need a directory user-info source; exercised in C08's LDAP fake, not here")
}

func firstWord(s string) string {
	f := strings.Fields(s)
	if len(f) == 0 {
		return "x"
	}
	if len(f) > 3 {
		f = f[:3]
	}
	return strings.Join(f, "-")
}
