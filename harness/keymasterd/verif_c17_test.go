package main

// C17 - post-login redirects never leave the keymaster origin.
//
// Oracle (syntactic, straight from the statement): every 3xx Location emitted
// on a login / second-factor / federated-login flow is a single leading slash
// followed by neither slash nor backslash and contains no control characters;
// when the supplied destination does not have that shape the Location is the
// profile page.  The header is read off a real HTTP server (what goes on the
// wire), not off a recorder.

import (
	"crypto/tls"
	"fmt"
	"io"
	"net/http"
	"net/http/httptest"
	"net/url"
	"strings"
	"testing"
	"time"

	nethtml "golang.org/x/net/html"
)

func c17SameOrigin(loc string) bool {
	if loc == "" || loc[0] != '/' {
		return false
	}
	if len(loc) > 1 && (loc[1] == '/' || loc[1] == '\\') {
		return false
	}
	for i := 0; i < len(loc); i++ {
		if loc[i] < 0x20 || loc[i] == 0x7f {
			return false
		}
	}
	return true
}

// c17HiddenDestination returns the value of the login_destination_input field as an HTML5 parser reads it.
func c17HiddenDestination(page string) (string, bool) {
	doc, err := nethtml.Parse(strings.NewReader(page))
	if err != nil {
		return "", false
	}
	var val string
	found := false
	var walk func(n *nethtml.Node)
	walk = func(n *nethtml.Node) {
		if n.Type == nethtml.ElementNode && n.Data == "input" {
			id, v := "", ""
			for _, a := range n.Attr {
				switch strings.ToLower(a.Key) {
				case "id":
					id = a.Val
				case "value":
					v = a.Val
				}
			}
			if id == "login_destination_input" && !found {
				val, found = v, true
			}
		}
		for c := n.FirstChild; c != nil; c = c.NextSibling {
			walk(c)
		}
	}
	walk(doc)
	return val, found
}

func c17Family(d string) string {
	switch {
	case strings.ContainsAny(d, "\t\n\r\x00\x0b\x0c\x1b\x7f"):
		return "control-char"
	case strings.HasPrefix(d, "/\\") || strings.HasPrefix(d, "\\"):
		return "backslash"
	case strings.HasPrefix(d, "//"):
		return "double-slash"
	case strings.Contains(d, "://") || strings.HasPrefix(d, "javascript:") || strings.HasPrefix(d, "http:") || strings.HasPrefix(d, "https:"):
		return "scheme"
	case !strings.HasPrefix(d, "/"):
		return "relative"
	case strings.Contains(d, "%"):
		return "encoded"
	default:
		return "plain-path"
	}
}

func c17Destinations(rng interface{ Intn(int) int }, n int) []string {
	out := []string{"/profile/", "/", "/idp/oauth2/authorize?client_id=a&scope=openid", "/showAuthToken", "/a/b?c=d#e",
		// HTML character references for the characters the rule is about (a destination travels through HTML pages:
		// code that un-escapes it anywhere after the check re-creates them)
		"/&#92;evil.com/", "/&bsol;evil.com/", "/&#47;evil.com/", "/&sol;evil.com/", "/&#9;/evil.com/", "/&Tab;/evil.com/", "/&#x5c;evil.com", "/&#x2f;evil.com", "&sol;&sol;evil.com", "/&NewLine;/evil.com",
		"//evil.com", "/\\evil.com", "/\\/evil.com", "\\/evil.com", "\\\\evil.com", "/\t/evil.com", "/\n/evil.com", "/\r/evil.com",
		"/\r\n/evil.com", "/\x00/evil.com", "/\t\\evil.com", "/\x0b/evil.com", "/%2f/evil.com", "/%5cevil.com", "/%09/evil.com",
		"https://evil.com", "http://evil.com/", "http:evil.com", "https:/evil.com", "javascript:alert(1)", "evil.com", "@evil.com", "/@evil.com",
		"/.evil.com", "/./evil.com", "/..//evil.com", "/a/..//evil.com", "/.//evil.com", "//", "///evil.com", "////evil.com", "/\\\\evil.com", "/ /evil.com",
		"／／evil.com", "/／evil.com", "/ /evil.com", "/profile/\r\nSet-Cookie: x=y", "/profile/\nLocation: https://evil.com",
		"/" + strings.Repeat("a", 6000), " //evil.com", "\t//evil.com", "/\\\t/evil.com", "/?//evil.com", "/#//evil.com", "/;//evil.com",
		"/\x7f/evil.com", "/\x1f/evil.com", "/\\evil.com/profile/", "/\\\\/evil.com", "/\t", "/\\", "/\\.evil.com",
		"/%2Fevil.com/", "/%5Cevil.com/x", "/%2f%2fevil.com", "/%09/evil.com/", "/%0a/evil.com", "/%2F%5Cevil.com"}
	heads := []string{"/", "//", "/\\", "\\", "/\t", "/\n", "/\r", "/ ", "", "/%2f", "/%5c", "/.", "/..", "/a/..", "/\t/", "/\\/", "/\x00", "https://", "http:", "/./", "/;", "/?"}
	mids := []string{"evil.com", "/evil.com", "\\evil.com", "\tevil.com", "@evil.com", "profile/", ".evil.com", "/\\evil.com", "//evil.com", "x"}
	tails := []string{"", "/", "/profile/", "?x=1", "#f", "\t", "\r\n", "%0d%0a", "/..", "\\"}
	for len(out) < n {
		out = append(out, heads[rng.Intn(len(heads))]+mids[rng.Intn(len(mids))]+tails[rng.Intn(len(tails))])
	}
	return out
}

type c17Case struct {
	Flow        string `json:"flow"`
	Destination string `json:"destination"`
	Placement   string `json:"placement"`
	Status      int    `json:"status"`
	Location    string `json:"location"`
	Note        string `json:"note,omitempty"`
}

type c17Client struct {
	base string
	hc   *http.Client
}

func newC17Client(srv *httptest.Server) *c17Client {
	tr := &http.Transport{TLSClientConfig: &tls.Config{InsecureSkipVerify: true}}
	return &c17Client{srv.URL, &http.Client{Transport: tr, Timeout: 20 * time.Second,
		CheckRedirect: func(*http.Request, []*http.Request) error { return http.ErrUseLastResponse }}}
}

// do sends a request over the wire; cookies in/out are explicit
func (c *c17Client) do(method, path string, form url.Values, cookies map[string]string, hdr map[string]string) (int, http.Header, []*http.Cookie, string, error) {
	var body io.Reader
	if form != nil {
		body = strings.NewReader(form.Encode())
	}
	req, err := http.NewRequest(method, c.base+path, body)
	if err != nil {
		return 0, nil, nil, "", err
	}
	req.Host = verifHost
	if form != nil {
		req.Header.Set("Content-Type", "application/x-www-form-urlencoded")
	}
	for k, v := range hdr {
		req.Header.Set(k, v)
	}
	for k, v := range cookies {
		req.AddCookie(&http.Cookie{Name: k, Value: v})
	}
	resp, err := c.hc.Do(req)
	if err != nil {
		return 0, nil, nil, "", err
	}
	defer resp.Body.Close()
	b, _ := io.ReadAll(io.LimitReader(resp.Body, 1<<20))
	return resp.StatusCode, resp.Header, resp.Cookies(), string(b), nil
}

func cookieVal(cs []*http.Cookie, name string) string {
	for _, c := range cs {
		if c.Name == name {
			return c.Value
		}
	}
	return ""
}

func TestVerifC17(t *testing.T) {
	rep := newVerifReport("C17", "destination grammar (slashes, backslashes, tab/CR/LF/NUL, encodings, schemes, user-info, dot segments, unicode slashes, very long) in form and query placement through every handler that redirects to the supplied destination (password login, TOTP, VIP OTP, Okta OTP, bootstrap OTP, OAuth2 begin->callback) on a real TLS server, plus the destination field of the second-factor page that the browser-side scripts navigate to; every 3xx Location (and that field) must be a same-origin path per the statement and fall back to /profile/ for ill-shaped destinations; class = (flow, destination family, placement, verdict)")
	defer rep.Finish()
	rng := verifRand("c17")
	vip := newVerifFakeVIP()
	defer vip.Server.Close()
	idp := newVerifFakeIdP()
	verifNet.Handle("idp.verif.test", idp)
	env, err := verifNewEnv(verifStateOpts{Name: "c17", Users: map[string]string{"root1": "pw-root1"},
		AllowedCerts: []string{"U2F"}, AllowedWebUI: []string{"password"}, AdminUsers: []string{"root1"},
		EnableTOTP: true, EnableBootstrap: true, VIP: true, Oauth2IdPHost: "idp.verif.test"})
	if err != nil {
		t.Fatal(err)
	}
	env.InstallFakeVIP(vip)
	env.SetPasswordChecker(verifPWFunc(func(u string, p []byte) (bool, error) { return string(p) == "pw-"+u, nil }))
	srv := httptest.NewUnstartedServer(env.Svc)
	srv.StartTLS()
	defer srv.Close()
	cl := newC17Client(srv)
	html := map[string]string{"Accept": "text/html"}
	n := 400
	if verifThorough() {
		n = 20000
	}
	dests := c17Destinations(rng, n)
	judge := func(flow, d, placement string, code int, hdr http.Header) {
		loc := hdr.Get("Location")
		cs := c17Case{Flow: flow, Destination: d, Placement: placement, Status: code, Location: loc}
		fam := c17Family(d)
		if code < 300 || code >= 400 {
			rep.Eval(fmt.Sprintf("%s|%s|%s|no-redirect-%d", flow, fam, placement, code))
			rep.Count("noredirect_"+flow, 1)
			return
		}
		rep.Count("redirects_"+flow, 1)
		verdict := "same-origin"
		switch {
		case !c17SameOrigin(loc):
			verdict = "leaves-origin"
			cs.Note = "redirect leaves the keymaster origin as a browser resolves it"
			rep.Violate("C17/leaves-origin/"+flow+"/"+fam, cs.Note, cs)
		case !c17SameOrigin(d) && loc != "/profile/":
			verdict = "no-fallback"
			cs.Note = "ill-shaped destination did not fall back to the profile page"
			rep.Violate("C17/no-fallback/"+flow+"/"+fam, cs.Note, cs)
		default:
			rep.Sample(flow+":"+fam, 1, cs)
		}
		rep.Eval(fmt.Sprintf("%s|%s|%s|%s", flow, fam, placement, verdict))
	}
	send := func(method, path string, form url.Values, d, placement string, cookies map[string]string) (int, http.Header, []*http.Cookie, error) {
		f := url.Values{}
		for k, v := range form {
			f[k] = v
		}
		p := path
		if placement == "query" {
			p += "?login_destination=" + url.QueryEscape(d)
		} else {
			f.Set("login_destination", d)
		}
		code, hdr, cks, body, err := cl.do(method, p, f, cookies, html)
		// whatever the status: a page that carries the destination to the browser-side scripts is judged like a Location
		if err == nil && strings.Contains(body, "login_destination_input") {
			if v, ok := c17HiddenDestination(body); ok {
				rep.Count("destination_fields_read", 1)
				judge("page-destination-field:"+path, d, placement, 302, http.Header{"Location": {v}})
			}
		}
		return code, hdr, cks, err
	}
	// ---- (a) password login -------------------------------------------------
	for i, d := range dests {
		placement := "form"
		if i%3 == 2 {
			placement = "query"
		}
		u := fmt.Sprintf("u%d", i%50)
		code, hdr, _, err := send("POST", "/api/v0/login", url.Values{"username": {u}, "password": {"pw-" + u}}, d, placement, nil)
		if err != nil {
			rep.Obs("password flow: transport error for %q: %v", d, err)
			rep.Count("transport_errors", 1)
			continue
		}
		judge("password", d, placement, code, hdr)
	}
	// second-factor flows get the critical families first
	nSecond := 80
	if verifThorough() {
		nSecond = 1200
	}
	if nSecond > len(dests) {
		nSecond = len(dests)
	}
	env.SetAllowedWebUI([]string{"U2F"}) // 2FA pages instead of direct redirects at login
	loginJSON := func(u string) string {
		_, _, cks, _, err := cl.do("POST", "/api/v0/login", url.Values{"username": {u}, "password": {"pw-" + u}}, nil, nil)
		if err != nil {
			return ""
		}
		return cookieVal(cks, "auth_cookie")
	}
	adminCk := loginJSON("root1")
	// ---- (b) TOTP: one enrolled user per destination (one success per 30 s step and user)
	env.SetAllowedWebUI([]string{"password"})
	for i := 0; i < nSecond; i++ {
		u := fmt.Sprintf("t%d", i)
		ck, _ := verifLogin(env, u, "pw-"+u)
		secret, err := verifEnrollTOTP(env, ck)
		if err != nil {
			rep.Inconc("TOTP enrolment failed: %v", err)
			break
		}
		d := dests[i]
		placement := []string{"form", "query"}[i%2]
		code, hdr, _, err := send("POST", "/api/v0/TOTPAuth", url.Values{"OTP": {verifTOTPCode(secret, time.Now())}}, d, placement, map[string]string{"auth_cookie": ck})
		if err != nil {
			rep.Count("transport_errors", 1)
			continue
		}
		judge("totp", d, placement, code, hdr)
	}
	// ---- (b2) failed second-factor attempts carrying a destination: browsers get a page back (not a redirect); its
	// destination field is judged by send()
	for i := 0; i < nSecond && i < 40; i++ {
		u := fmt.Sprintf("tf%d", i)
		ck, _ := verifLogin(env, u, "pw-"+u)
		if _, err := verifEnrollTOTP(env, ck); err != nil {
			break
		}
		vip.SetOTP(u, 123456)
		d := dests[i]
		placement := []string{"form", "query"}[i%2]
		for _, p := range []string{"/api/v0/TOTPAuth", "/api/v0/vipAuth", "/api/v0/bootstrapOtpAuth"} {
			if code, _, _, err := send("POST", p, url.Values{"OTP": {"000001"}}, d, placement, map[string]string{"auth_cookie": ck}); err == nil {
				rep.Eval(fmt.Sprintf("failed-second-factor|%s|%d", p, code))
				rep.Count("failed_second_factor_attempts", 1)
			}
		}
	}
	// ---- (c) VIP OTP
	for i := 0; i < nSecond; i++ {
		u := fmt.Sprintf("v%d", i)
		vip.SetOTP(u, 123456)
		ck, _ := verifLogin(env, u, "pw-"+u)
		d := dests[i]
		placement := []string{"form", "query"}[i%2]
		code, hdr, _, err := send("POST", "/api/v0/vipAuth", url.Values{"OTP": {"123456"}}, d, placement, map[string]string{"auth_cookie": ck})
		if err != nil {
			rep.Count("transport_errors", 1)
			continue
		}
		judge("vip-otp", d, placement, code, hdr)
	}
	// ---- (e) bootstrap OTP
	for i := 0; i < nSecond; i++ {
		u := fmt.Sprintf("b%d", i)
		if r := verifAdminAddUser(env, adminCk, u); r.Code != 200 {
			rep.Inconc("addUser failed: %d", r.Code)
			break
		}
		otp, r := verifAdminBootstrapOTP(env, adminCk, u, "")
		if otp == "" {
			rep.Inconc("bootstrap OTP issue failed: %d", r.Code)
			break
		}
		ck, _ := verifLogin(env, u, "pw-"+u)
		d := dests[i]
		placement := []string{"form", "query"}[i%2]
		code, hdr, _, err := send("POST", "/api/v0/bootstrapOtpAuth", url.Values{"OTP": {otp}}, d, placement, map[string]string{"auth_cookie": ck})
		if err != nil {
			rep.Count("transport_errors", 1)
			continue
		}
		judge("bootstrap-otp", d, placement, code, hdr)
	}
	// ---- (f) federated login: begin -> callback
	for i := 0; i < nSecond; i++ {
		d := dests[i]
		placement := []string{"query", "form"}[i%2]
		method := "GET"
		if placement == "form" {
			method = "POST"
		}
		code, hdr, cks, err := send(method, "/auth/oauth2/login", nil, d, placement, nil)
		if err != nil || code != 302 {
			rep.Count("oauth2_begin_failed", 1)
			continue
		}
		redir := cookieVal(cks, "oauth2_redir")
		lu, _ := url.Parse(hdr.Get("Location"))
		st := ""
		if lu != nil {
			st = lu.Query().Get("state")
		}
		codeParam := idp.NewCode(fmt.Sprintf("fed%d", i))
		c2, h2, _, _, err := cl.do("GET", "/auth/oauth2/callback?state="+url.QueryEscape(st)+"&code="+codeParam, nil, map[string]string{"oauth2_redir": redir}, html)
		if err != nil {
			rep.Count("transport_errors", 1)
			continue
		}
		judge("oauth2", d, placement, c2, h2)
		// the same browser starts the federated login a second time (double submit, second tab): it already carries the
		// setup cookie of a harmless first attempt; the destination of the second attempt is the hostile one
		_, _, cks0, err := send(method, "/auth/oauth2/login", nil, "/profile/", placement, nil)
		if err != nil {
			continue
		}
		first := cookieVal(cks0, "oauth2_redir")
		code3, hdr3, cks3, err := send(method, "/auth/oauth2/login", nil, d, placement, map[string]string{"oauth2_redir": first})
		if err != nil || code3 != 302 {
			rep.Count("oauth2_begin_failed", 1)
			continue
		}
		redir3 := cookieVal(cks3, "oauth2_redir")
		if redir3 == "" {
			redir3 = first // the server kept the pending request of the first attempt
		}
		st3 := ""
		if lu3, _ := url.Parse(hdr3.Get("Location")); lu3 != nil {
			st3 = lu3.Query().Get("state")
		}
		c4, h4, _, _, err := cl.do("GET", "/auth/oauth2/callback?state="+url.QueryEscape(st3)+"&code="+idp.NewCode(fmt.Sprintf("fedr%d", i)), nil, map[string]string{"oauth2_redir": redir3}, html)
		if err != nil {
			rep.Count("transport_errors", 1)
			continue
		}
		judge("oauth2-repeated-begin", d, placement, c4, h4)
	}
	// ---- (g) pages that carry the destination to the browser-side scripts: when the web UI needs a second factor the
	// login answers with the second-factor page, whose hidden field login_destination_input is where the U2F / push
	// scripts send the browser after success (window.location.href).  The value, as an HTML parser hands it to the
	// script, is judged by the same rule as a Location header.
	env.SetAllowedWebUI([]string{"U2F"})
	nPage := 120
	if verifThorough() {
		nPage = len(dests)
	}
	for i := 0; i < nPage && i < len(dests); i++ {
		d := dests[i]
		placement := []string{"form", "query"}[i%2]
		u := fmt.Sprintf("u%d", i%50)
		code, _, _, body, err := func() (int, http.Header, []*http.Cookie, string, error) {
			f := url.Values{"username": {u}, "password": {"pw-" + u}}
			p := "/api/v0/login"
			if placement == "query" {
				p += "?login_destination=" + url.QueryEscape(d)
			} else {
				f.Set("login_destination", d)
			}
			return cl.do("POST", p, f, nil, html)
		}()
		if err != nil || code != 200 {
			rep.Count("page_flow_no_page", 1)
			continue
		}
		val, found := c17HiddenDestination(body)
		if !found {
			rep.Count("page_flow_no_field", 1)
			continue
		}
		rep.Count("destination_fields_read", 1)
		judge("2fa-page-destination-field", d, placement, 302, http.Header{"Location": {val}})
	}
	env.SetAllowedWebUI([]string{"password"})
	// ---- (d) Okta OTP (separate deployment: Okta is the password backend)
	okta := newVerifFakeOkta()
	oktaUnreachable := false
	verifNet.Handle("verifco.okta.com", okta)
	oenv, err := verifNewEnv(verifStateOpts{Name: "c17-okta", AllowedCerts: []string{"Okta2FA"}, AllowedWebUI: []string{"password"},
		OktaDomain: "verifco"})
	if err != nil {
		t.Fatal(err)
	}
	osrv := httptest.NewUnstartedServer(oenv.Svc)
	osrv.StartTLS()
	defer osrv.Close()
	ocl := newC17Client(osrv)
	for i := 0; i < nSecond; i++ {
		u := fmt.Sprintf("o%d", i)
		okta.mu.Lock()
		okta.Password[u] = "pw-" + u
		okta.OTP[u] = "654321"
		okta.mu.Unlock()
		_, _, cks, _, err := ocl.do("POST", "/api/v0/login", url.Values{"username": {u}, "password": {"pw-" + u}}, nil, nil)
		ck := cookieVal(cks, "auth_cookie")
		if err != nil || ck == "" {
			if verifNet.CallCount("verifco.okta.com") == 0 {
				// the stand-in for Okta sits behind Go's default HTTP transport; a tree whose Okta client brings its
				// own transport never reaches it (and, in this sandbox, nothing else).  The flow cannot be driven.
				oktaUnreachable = true
				rep.Obs("the Okta stand-in was never contacted (the tree's Okta client does not use the default HTTP transport): the Okta flow is left out")
			} else {
				rep.Inconc("okta login failed")
			}
			break
		}
		d := dests[i]
		f := url.Values{"OTP": {"654321"}, "login_destination": {d}}
		code, hdr, _, _, err := ocl.do("POST", "/api/v0/okta2FAAuth", f, map[string]string{"auth_cookie": ck}, html)
		if err != nil {
			rep.Count("transport_errors", 1)
			continue
		}
		judge("okta-otp", d, "form", code, hdr)
	}
	rep.Floor("destination_fields_read", 60)
	rep.Floor("failed_second_factor_attempts", 60)
	for _, f := range []string{"password", "totp", "vip-otp", "bootstrap-otp", "oauth2", "oauth2-repeated-begin", "okta-otp"} {
		if f == "okta-otp" && oktaUnreachable {
			continue
		}
		rep.Floor("redirects_"+f, 40)
	}
	rep.Extra["destinations"] = len(dests)
}
