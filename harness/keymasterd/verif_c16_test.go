package main

// C16 - concurrent requests are race-free and do not undo or double-spend.
//
// Monitor 1: exhaustive interleavings at storage-operation granularity.  The
// interposing SQL driver is a gate: only one request goroutine runs at a time,
// up to its next profile load / save, so a schedule is a word over request ids
// and all words are enumerated (stateless depth-first search with replay).
// Clause (b): an acknowledged Disable/Delete of a token is in force in the final
// profile.  Clause (c): a one-time value presented twice is honoured at most
// once.
// Monitor 2: real concurrency - duplicates of a one-time value fired at the
// same moment, and a mixed stress workload under the race detector (reports are
// read from GORACE's log by TestVerifC16Race's driver part).

import (
	"database/sql"
	"fmt"
	"net/url"
	"os"
	"path/filepath"
	"regexp"
	"sort"
	"strings"
	"sync"
	"testing"
	"time"
)

type c16Event struct {
	req  int
	kind string // blocked | done
	op   string
}

type c16Sched struct {
	mu      sync.Mutex
	active  bool
	current int
	events  chan c16Event
	release []chan struct{}
}

func (s *c16Sched) hook(op verifSQLOp) error {
	t := strings.ToLower(strings.TrimSpace(op.Text))
	// gate right after a profile load: the row has been read and the statement
	// reset (data in the loader's hands, no database lock held); the handler's
	// next segment - modify and save - runs when the scheduler releases it.
	// Saves are not gated themselves: they run inside the code's own critical
	// section.
	gated := op.Kind == "rows-closed" && strings.HasPrefix(t, "select profile_data")
	if !gated {
		return nil
	}
	s.mu.Lock()
	if !s.active {
		s.mu.Unlock()
		return nil
	}
	req := s.current
	ch := s.release[req]
	s.mu.Unlock()
	s.events <- c16Event{req, "blocked", "loaded"}
	<-ch
	return nil
}

type c16Scenario struct {
	Name   string
	Clause string // b | c
	Setup  func(w *c16World)
	Reqs   []func(w *c16World) verifReq
	Labels []string
	// Judge returns a violation description ("" = fine) given responses and the final profile view
	Judge func(w *c16World, resps []*verifResp, final verifProfileView) string
}

type c16World struct {
	env      *verifEnv
	rep      *verifReport
	side     *sql.DB
	snap     map[string][]byte
	user     string
	ck       []string // several sessions of the user (password+U2F level)
	secret   string
	tok      *verifU2FToken
	u2fIdx   int64
	totpIdx  int64
	trust    *verifTrust
	otp      string
	assert   map[string]string
	totpCode string
	adminCk  string
}

func (w *c16World) reset() {
	c08Restore(w.side, w.snap)
	w.env.ResetVolatile()
}

func (w *c16World) honoured(r *verifResp, bit string) bool {
	if c := r.Cookie("auth_cookie"); c != nil && c.Value != "" {
		if _, bits, ok := verifCookieInfo(c.Value, w.trust.Keys); ok && bits&verifBit[bit] != 0 {
			return true
		}
	}
	return false
}

// runSchedule executes the scenario following choices; returns the decision
// points met (enabled sets) and the word actually executed.
func c16Run(w *c16World, sc c16Scenario, sched *c16Sched, choices []int) (word []int, enabledAt [][]int, resps []*verifResp, ops []string, ok bool) {
	w.reset()
	if sc.Setup != nil {
		sc.Setup(w)
	}
	n := len(sc.Reqs)
	reqs := make([]verifReq, n)
	for i := range reqs {
		reqs[i] = sc.Reqs[i](w)
	}
	resps = make([]*verifResp, n)
	started := make([]bool, n)
	done := make([]bool, n)
	parked := make([]bool, n)
	sched.mu.Lock()
	sched.active = true
	sched.events = make(chan c16Event, 16)
	sched.release = make([]chan struct{}, n)
	for i := range sched.release {
		sched.release[i] = make(chan struct{}, 1)
	}
	sched.mu.Unlock()
	defer func() {
		sched.mu.Lock()
		sched.active = false
		sched.mu.Unlock()
	}()
	step := 0
	for {
		var enabled []int
		for i := 0; i < n; i++ {
			if !done[i] {
				enabled = append(enabled, i)
			}
		}
		if len(enabled) == 0 {
			break
		}
		pick := enabled[0]
		if step < len(choices) {
			pick = choices[step]
		}
		enabledAt = append(enabledAt, enabled)
		word = append(word, pick)
		step++
		sched.mu.Lock()
		sched.current = pick
		sched.mu.Unlock()
		if !started[pick] {
			started[pick] = true
			go func(i int) {
				r := w.env.Do(reqs[i].Build())
				resps[i] = r
				sched.events <- c16Event{i, "done", ""}
			}(pick)
		} else {
			sched.release[pick] <- struct{}{}
		}
		stepWait := 60 * time.Second
		anyParked := false
		for i := 0; i < n; i++ {
			if parked[i] && i != pick {
				anyParked = true
			}
		}
		if anyParked {
			// the picked request may be waiting for something a parked request holds (a per-user lock taken before the
			// load): then this interleaving is one the program cannot have
			stepWait = 5 * time.Second
		}
		parked[pick] = false
		select {
		case ev := <-sched.events:
			if ev.kind == "done" {
				done[ev.req] = true
				ops = append(ops, fmt.Sprintf("%d:done", ev.req))
			} else {
				parked[ev.req] = true
				ops = append(ops, fmt.Sprintf("%d:%s", ev.req, ev.op))
			}
		case <-time.After(stepWait):
			if !anyParked {
				return word, enabledAt, resps, ops, false
			}
			// infeasible prefix: stop steering, let every parked request go and the run finish by itself (it is still
			// a real execution and is judged like any other); the explorer backtracks over the prefix as usual
			ops = append(ops, fmt.Sprintf("%d:waits-for-a-parked-request(free-running-from-here)", pick))
			w.rep.Count("schedules_with_infeasible_step", 1)
			sched.mu.Lock()
			sched.active = false
			sched.mu.Unlock()
			for i := 0; i < n; i++ {
				if parked[i] {
					parked[i] = false
					sched.release[i] <- struct{}{}
				}
			}
			for i := 0; i < n; i++ {
				if !started[i] {
					started[i] = true
					go func(i int) {
						r := w.env.Do(reqs[i].Build())
						resps[i] = r
						sched.events <- c16Event{i, "done", ""}
					}(i)
				}
			}
			deadline := time.After(60 * time.Second)
			for {
				all := true
				for i := 0; i < n; i++ {
					if !done[i] {
						all = false
					}
				}
				if all {
					return word, enabledAt, resps, ops, true
				}
				select {
				case ev := <-sched.events:
					if ev.kind == "done" {
						done[ev.req] = true
						ops = append(ops, fmt.Sprintf("%d:done", ev.req))
					} else {
						// a request that reached its gate just before steering stopped
						sched.release[ev.req] <- struct{}{}
					}
				case <-deadline:
					return word, enabledAt, resps, ops, false
				}
			}
		}
	}
	return word, enabledAt, resps, ops, true
}

// c16Explore enumerates every schedule of the scenario.
func c16Explore(w *c16World, sc c16Scenario, sched *c16Sched, maxSchedules int) {
	type frame struct {
		enabled []int
		idx     int
	}
	var stack []frame
	schedules := 0
	for {
		var choices []int
		for _, f := range stack {
			choices = append(choices, f.enabled[f.idx])
		}
		word, enabledAt, resps, ops, ok := c16Run(w, sc, sched, choices)
		if !ok {
			w.rep.Inconc("scenario %s: schedule %v did not make progress (watchdog)", sc.Name, word)
			return
		}
		schedules++
		for d := len(stack); d < len(enabledAt); d++ {
			stack = append(stack, frame{enabledAt[d], 0})
		}
		final := w.env.ProfileView(w.user)
		w.rep.Eval(fmt.Sprintf("sched|%s|%s", sc.Name, strings.Join(ops, ",")))
		w.rep.Count("schedules_"+sc.Clause, 1)
		if msg := sc.Judge(w, resps, final); msg != "" {
			var st []int
			for _, r := range resps {
				st = append(st, r.Code)
			}
			w.rep.Violate("C16/"+map[string]string{"b": "lost-update", "c": "double-spend"}[sc.Clause]+"/"+sc.Name, msg,
				map[string]interface{}{"scenario": sc.Name, "requests": sc.Labels, "schedule": ops, "statuses": st})
		} else {
			w.rep.Sample("schedule:"+sc.Name, 1, map[string]interface{}{"schedule": ops})
		}
		// backtrack
		for len(stack) > 0 && stack[len(stack)-1].idx+1 >= len(stack[len(stack)-1].enabled) {
			stack = stack[:len(stack)-1]
		}
		if len(stack) == 0 || schedules >= maxSchedules {
			break
		}
		stack[len(stack)-1].idx++
	}
	w.rep.Count("scenarios_explored", 1)
	w.rep.Extra["schedules:"+sc.Name] = schedules
}

func newC16World(t *testing.T, rep *verifReport, name string) (*c16World, string) {
	env, err := verifNewEnv(verifStateOpts{Name: name, AllowedCerts: []string{"U2F", "TOTP"}, AllowedWebUI: []string{"password"}, AdminUsers: []string{"root1"},
		EnableTOTP: true, EnableBootstrap: true, Users: map[string]string{"x": "y"}})
	if err != nil {
		t.Fatal(err)
	}
	env.SetPasswordChecker(verifPWFunc(func(u string, p []byte) (bool, error) { return string(p) == "pw-"+u, nil }))
	pl, _, err := env.HookDBs()
	if err != nil {
		t.Fatal(err)
	}
	env.SetRemoteDBTimeout(5 * time.Minute)
	w := &c16World{env: env, rep: rep, user: "carl"}
	w.side, _ = sql.Open("sqlite3", env.PrimaryDBPath())
	w.trust, _ = verifPublishedTrust(env)
	ck, _ := verifLogin(env, w.user, "pw-"+w.user)
	w.tok = newVerifU2FToken()
	if err := verifEnrollU2F(env, ck, w.user, w.tok); err != nil {
		t.Fatal(err)
	}
	if w.secret, err = verifEnrollTOTP(env, ck); err != nil {
		t.Fatal(err)
	}
	v := env.ProfileView(w.user)
	for i := range v.U2F {
		w.u2fIdx = i
	}
	for i := range v.TOTP {
		w.totpIdx = i
	}
	ca := verifSigner("ca_rsa2048")
	for i := 0; i < 3; i++ {
		w.ck = append(w.ck, verifMint(verifSessionClaims(w.user, verifBit["password"], time.Now().Add(-time.Duration(i+1)*time.Minute), 16*time.Hour), ca))
	}
	w.adminCk = verifMint(verifSessionClaims("root1", verifBit["password"]|verifBit["U2F"], time.Now().Add(-time.Minute), 16*time.Hour), ca)
	// a user with a bootstrap OTP (no tokens)
	verifAdminAddUser(env, w.adminCk, "otto")
	w.snap = c08Snapshot(w.side)
	return w, pl
}

func c16Scenarios() []c16Scenario {
	manage := func(kind, action string, name string, ck int) func(w *c16World) verifReq {
		return func(w *c16World) verifReq {
			path, idx := "/api/v0/manageU2FToken", w.u2fIdx
			if kind == "totp" {
				path, idx = "/api/v0/manageTOTPToken", w.totpIdx
			}
			return verifReq{Method: "POST", Path: path, Form: url.Values{"username": {w.user}, "index": {fmt.Sprint(idx)}, "action": {action}, "name": {name}}, Cookies: verifCk(w.ck[ck])}
		}
	}
	stillThere := func(kind string) func(w *c16World, resps []*verifResp, f verifProfileView) string {
		return func(w *c16World, resps []*verifResp, f verifProfileView) string {
			if resps[0].Code >= 400 {
				return ""
			}
			m, idx := f.U2F, w.u2fIdx
			if kind == "totp" {
				m, idx = f.TOTP, w.totpIdx
			}
			if t, ok := m[idx]; ok && t.Enabled {
				return "the token's disable/delete was acknowledged (" + fmt.Sprint(resps[0].Code) + ") but the token is enabled in the final profile"
			}
			return ""
		}
	}
	var sc []c16Scenario
	add := func(name, kind, action string, other func(w *c16World) verifReq, otherLabel string) {
		sc = append(sc, c16Scenario{Name: name, Clause: "b", Reqs: []func(w *c16World) verifReq{manage(kind, action, "x", 0), other},
			Labels: []string{kind + "-manage:" + action, otherLabel}, Judge: stillThere(kind)})
	}
	add("u2f-Disable|totp-Update", "u2f", "Disable", manage("totp", "Update", "renamed", 1), "totp-manage:Update")
	add("u2f-Disable|u2f-Update", "u2f", "Disable", manage("u2f", "Update", "renamed", 1), "u2f-manage:Update")
	add("u2f-Delete|u2f-Update", "u2f", "Delete", manage("u2f", "Update", "renamed", 1), "u2f-manage:Update")
	add("totp-Delete|totp-Update", "totp", "Delete", manage("totp", "Update", "renamed", 1), "totp-manage:Update")
	add("totp-Disable|u2f-Update", "totp", "Disable", manage("u2f", "Update", "renamed", 1), "u2f-manage:Update")
	add("u2f-Disable|u2f-register-begin", "u2f", "Disable", func(w *c16World) verifReq {
		return verifReq{Method: "GET", Path: "/u2f/RegisterRequest/" + w.user, Cookies: verifCk(w.ck[1])}
	}, "u2f-register-begin")
	add("u2f-Disable|webauthn-register-begin", "u2f", "Disable", func(w *c16World) verifReq {
		return verifReq{Method: "GET", Path: "/webauthn/RegisterRequest/" + w.user, Cookies: verifCk(w.ck[1])}
	}, "webauthn-register-begin")
	add("totp-Disable|totp-generate", "totp", "Disable", func(w *c16World) verifReq {
		return verifReq{Method: "POST", Path: "/totp/GenerateNew/", Cookies: verifCk(w.ck[1])}
	}, "totp-generate")
	add("u2f-Disable|totp-auth", "u2f", "Disable", func(w *c16World) verifReq {
		return verifReq{Method: "POST", Path: "/api/v0/TOTPAuth", Form: url.Values{"OTP": {verifTOTPCode(w.secret, time.Now())}}, Cookies: verifCk(w.ck[1])}
	}, "totp-auth")
	add("u2f-Delete|admin-manage-Update", "u2f", "Delete", func(w *c16World) verifReq {
		return verifReq{Method: "POST", Path: "/api/v0/manageU2FToken", Form: url.Values{"username": {w.user}, "index": {fmt.Sprint(w.u2fIdx)}, "action": {"Update"}, "name": {"by admin"}}, Cookies: verifCk(w.adminCk)}
	}, "u2f-manage:Update(admin)")
	// an administrator deletes the user (all tokens with it) while a request of that user is between its load and its
	// save; every run starts like a restarted daemon (stored profiles, no in-memory state)
	gone := func(w *c16World, resps []*verifResp, f verifProfileView) string {
		if resps[0].Code >= 400 {
			return ""
		}
		for _, m := range []map[int64]verifTokView{f.U2F, f.TOTP, f.WebAuthn} {
			for _, t := range m {
				if t.Enabled {
					return "the deletion of the user was acknowledged (" + fmt.Sprint(resps[0].Code) + ") but an enabled token of that user is in the final profile"
				}
			}
		}
		return ""
	}
	delUser := func(w *c16World) verifReq {
		return verifReq{Method: "POST", Path: "/admin/deleteUser", Form: url.Values{"username": {w.user}}, Cookies: verifCk(w.adminCk)}
	}
	for _, o := range []struct {
		label string
		req   func(w *c16World) verifReq
	}{
		{"u2f-manage:Update", manage("u2f", "Update", "renamed", 1)},
		{"totp-generate", func(w *c16World) verifReq {
			return verifReq{Method: "POST", Path: "/totp/GenerateNew/", Cookies: verifCk(w.ck[1])}
		}},
		{"totp-auth", func(w *c16World) verifReq {
			return verifReq{Method: "POST", Path: "/api/v0/TOTPAuth", Form: url.Values{"OTP": {verifTOTPCode(w.secret, time.Now())}}, Cookies: verifCk(w.ck[1])}
		}},
		{"u2f-register-begin", func(w *c16World) verifReq {
			return verifReq{Method: "GET", Path: "/u2f/RegisterRequest/" + w.user, Cookies: verifCk(w.ck[1])}
		}},
	} {
		sc = append(sc, c16Scenario{Name: "admin-delete-user|" + o.label, Clause: "b", Reqs: []func(w *c16World) verifReq{delUser, o.req},
			Labels: []string{"admin-delete-user", o.label}, Judge: gone})
	}
	// clause (c): one-time values presented twice
	sc = append(sc, c16Scenario{Name: "bootstrap-otp-twice", Clause: "c",
		Setup: func(w *c16World) {
			otp, _ := verifAdminBootstrapOTP(w.env, w.adminCk, "otto", "")
			w.otp = otp
		},
		Reqs: []func(w *c16World) verifReq{
			func(w *c16World) verifReq {
				ck := verifMint(verifSessionClaims("otto", verifBit["password"], time.Now().Add(-time.Minute), 16*time.Hour), verifSigner("ca_rsa2048"))
				return verifReq{Method: "POST", Path: "/api/v0/bootstrapOtpAuth", Form: url.Values{"OTP": {w.otp}}, Cookies: verifCk(ck)}
			},
			func(w *c16World) verifReq {
				ck := verifMint(verifSessionClaims("otto", verifBit["password"], time.Now().Add(-2*time.Minute), 16*time.Hour), verifSigner("ca_rsa2048"))
				return verifReq{Method: "POST", Path: "/api/v0/bootstrapOtpAuth", Form: url.Values{"OTP": {w.otp}}, Cookies: verifCk(ck)}
			}},
		Labels: []string{"bootstrap-otp-auth", "bootstrap-otp-auth(same value)"},
		Judge: func(w *c16World, resps []*verifResp, f verifProfileView) string {
			n := 0
			for _, r := range resps {
				if w.honoured(r, "BootstrapOTP") {
					n++
				}
			}
			if w.otp == "" {
				return ""
			}
			if n > 1 {
				return "a bootstrap OTP presented by two requests was honoured twice"
			}
			if n == 1 {
				w.rep.Count("onetime_honoured_once", 1)
			}
			return ""
		}})
	sc = append(sc, c16Scenario{Name: "totp-code-twice", Clause: "c",
		Setup: func(w *c16World) { w.totpCode = verifTOTPCode(w.secret, time.Now()) },
		Reqs: []func(w *c16World) verifReq{
			func(w *c16World) verifReq {
				return verifReq{Method: "POST", Path: "/api/v0/TOTPAuth", Form: url.Values{"OTP": {w.totpCode}}, Cookies: verifCk(w.ck[0])}
			},
			func(w *c16World) verifReq {
				return verifReq{Method: "POST", Path: "/api/v0/TOTPAuth", Form: url.Values{"OTP": {w.totpCode}}, Cookies: verifCk(w.ck[1])}
			}},
		Labels: []string{"totp-auth", "totp-auth(same code)"},
		Judge: func(w *c16World, resps []*verifResp, f verifProfileView) string {
			n := 0
			for _, r := range resps {
				if w.honoured(r, "TOTP") {
					n++
				}
			}
			if n > 1 {
				return "a TOTP code presented by two requests was honoured twice"
			}
			if n == 1 {
				w.rep.Count("onetime_honoured_once", 1)
			}
			return ""
		}})
	sc = append(sc, c16Scenario{Name: "u2f-assertion-twice", Clause: "c",
		Setup: func(w *c16World) {
			req, _ := verifU2FBegin(w.env, w.ck[0])
			if req != nil {
				w.assert = w.tok.SignResponse(req.AppID, req.Challenge)
			}
		},
		Reqs: []func(w *c16World) verifReq{
			func(w *c16World) verifReq {
				b, _ := jsonMarshal(w.assert)
				return verifReq{Method: "POST", Path: "/u2f/SignResponse", RawBody: b, RawCT: "application/json", Cookies: verifCk(w.ck[0])}
			},
			func(w *c16World) verifReq {
				b, _ := jsonMarshal(w.assert)
				return verifReq{Method: "POST", Path: "/u2f/SignResponse", RawBody: b, RawCT: "application/json", Cookies: verifCk(w.ck[1])}
			}},
		Labels: []string{"u2f-sign-response", "u2f-sign-response(same assertion)"},
		Judge: func(w *c16World, resps []*verifResp, f verifProfileView) string {
			n := 0
			for _, r := range resps {
				if w.honoured(r, "U2F") {
					n++
				}
			}
			if n > 1 {
				return "a hardware-token assertion presented by two requests was honoured twice"
			}
			if n == 1 {
				w.rep.Count("onetime_honoured_once", 1)
			}
			return ""
		}})
	return sc
}

func TestVerifC16(t *testing.T) {
	rep := newVerifReport("C16", "(1) every interleaving, at profile load/save granularity (the interposing SQL driver releases one request at a time), of pairs (and triples) of profile-touching handlers on one user: token manage Disable/Delete vs Update / register-begin / TOTP generate / TOTP auth / admin manage, admin delete-user vs the user's own load-modify-save requests (each run starting like a restarted daemon), and duplicates of one-time values (bootstrap OTP, TOTP code, hardware-token assertion); clause (b) acknowledged disable/delete in force in the final profile, clause (c) one-time value honoured at most once. (2) duplicates of one-time values fired simultaneously under real concurrency. class = (scenario, schedule)")
	defer rep.Finish()
	w, pl := newC16World(t, rep, "c16")
	sched := &c16Sched{}
	verifSQL.SetHook(pl, sched.hook)
	scen := c16Scenarios()
	for _, sc := range scen {
		c16Explore(w, sc, sched, 400)
	}
	if verifThorough() {
		// triples: the first request of each lost-update pair plus two writers
		for _, sc := range scen {
			if sc.Clause != "b" {
				continue
			}
			t3 := sc
			t3.Name = sc.Name + "|+totp-generate"
			t3.Reqs = append(append([]func(w *c16World) verifReq{}, sc.Reqs...), func(w *c16World) verifReq {
				return verifReq{Method: "POST", Path: "/totp/GenerateNew/", Cookies: verifCk(w.ck[2])}
			})
			t3.Labels = append(append([]string{}, sc.Labels...), "totp-generate")
			c16Explore(w, t3, sched, 2000)
		}
	}
	verifSQL.SetHook(pl, nil)
	// (2) real concurrency: the same one-time value fired from two goroutines at once
	c16Simultaneous(w, rep)
	c16SimultaneousOffline(w, rep, pl)
	rep.Floor("schedules_b", 40)
	rep.Floor("schedules_c", 12)
	rep.Floor("onetime_honoured_once", 6)
	rep.Floor("simultaneous_rounds", 30)
	rep.Floor("simultaneous_offline_honoured_once", 8)
}

func c16Simultaneous(w *c16World, rep *verifReport) {
	rounds := 60
	if verifThorough() {
		rounds = 1500
	}
	fire := func(reqs []verifReq) []*verifResp {
		out := make([]*verifResp, len(reqs))
		var wg sync.WaitGroup
		start := make(chan struct{})
		for i := range reqs {
			wg.Add(1)
			go func(i int) {
				defer wg.Done()
				r := reqs[i].Build()
				<-start
				out[i] = w.env.Do(r)
			}(i)
		}
		close(start)
		wg.Wait()
		return out
	}
	for i := 0; i < rounds; i++ {
		w.reset()
		// hardware-token assertion
		req, _ := verifU2FBegin(w.env, w.ck[0])
		if req != nil {
			a := w.tok.SignResponse(req.AppID, req.Challenge)
			b, _ := jsonMarshal(a)
			var rs []verifReq
			for k := 0; k < 3; k++ {
				rs = append(rs, verifReq{Method: "POST", Path: "/u2f/SignResponse", RawBody: b, RawCT: "application/json", Cookies: verifCk(w.ck[k])})
			}
			n := 0
			for _, r := range fire(rs) {
				if w.honoured(r, "U2F") {
					n++
				}
			}
			rep.Eval(fmt.Sprintf("simultaneous|u2f-assertion|honoured=%d", n))
			rep.Count("simultaneous_rounds", 1)
			if n > 1 {
				rep.Violate("C16/double-spend/simultaneous/u2f-assertion", fmt.Sprintf("one hardware-token assertion fired from 3 requests at once was honoured %d times", n), map[string]int{"round": i, "honoured": n})
			}
		}
		// bootstrap OTP
		otp, _ := verifAdminBootstrapOTP(w.env, w.adminCk, "otto", "")
		if otp != "" {
			var rs []verifReq
			for k := 0; k < 3; k++ {
				ck := verifMint(verifSessionClaims("otto", verifBit["password"], time.Now().Add(-time.Duration(k+1)*time.Minute), 16*time.Hour), verifSigner("ca_rsa2048"))
				rs = append(rs, verifReq{Method: "POST", Path: "/api/v0/bootstrapOtpAuth", Form: url.Values{"OTP": {otp}}, Cookies: verifCk(ck)})
			}
			n := 0
			for _, r := range fire(rs) {
				if w.honoured(r, "BootstrapOTP") {
					n++
				}
			}
			rep.Eval(fmt.Sprintf("simultaneous|bootstrap-otp|honoured=%d", n))
			rep.Count("simultaneous_rounds", 1)
			if n > 1 {
				rep.Violate("C16/double-spend/simultaneous/bootstrap-otp", fmt.Sprintf("one bootstrap OTP fired from 3 requests at once was honoured %d times", n), map[string]int{"round": i, "honoured": n})
			}
		}
	}
}

// c16SimultaneousOffline: one valid TOTP code fired from several requests at once while the primary store does not
// answer.  Profiles then come from the cache and the used-code counter cannot be stored: whatever keeps the code
// single-use has to work in memory, between requests that run at the same time.
func c16SimultaneousOffline(w *c16World, rep *verifReport, pl string) {
	rounds, width := 12, 8
	if verifThorough() {
		rounds = 150
	}
	w.reset()
	if err := w.env.SyncCache(); err != nil {
		rep.Inconc("cache synchronisation failed: %v", err)
		return
	}
	gate := newVerifOutage()
	verifSQL.SetHook(pl, gate.Hook)
	w.env.SetOutage(gate, true)
	defer func() {
		w.env.SetOutage(gate, false)
		verifSQL.SetHook(pl, nil)
		w.env.SetRemoteDBTimeout(5 * time.Minute)
	}()
	ca := verifSigner("ca_rsa2048")
	for i := 0; i < rounds; i++ {
		w.env.ResetVolatile()
		code := verifTOTPCode(w.secret, time.Now())
		out := make([]*verifResp, width)
		var wg sync.WaitGroup
		start := make(chan struct{})
		for k := 0; k < width; k++ {
			ck := verifMint(verifSessionClaims(w.user, verifBit["password"], time.Now().Add(-time.Duration(k+1)*time.Minute), 16*time.Hour), ca)
			r := verifReq{Method: "POST", Path: "/api/v0/TOTPAuth", Form: url.Values{"OTP": {code}}, Cookies: verifCk(ck)}.Build()
			wg.Add(1)
			go func(k int) {
				defer wg.Done()
				<-start
				out[k] = w.env.Do(r)
			}(k)
		}
		close(start)
		wg.Wait()
		n := 0
		var codes []int
		for _, r := range out {
			codes = append(codes, r.Code)
			if w.honoured(r, "TOTP") {
				n++
			}
		}
		rep.Eval(fmt.Sprintf("simultaneous-offline|totp-code|honoured=%d", n))
		rep.Count("simultaneous_offline_rounds", 1)
		switch {
		case n > 1:
			rep.Violate("C16/double-spend/simultaneous/totp-code-primary-unreachable",
				fmt.Sprintf("one TOTP code fired from %d requests at once while the primary store was unreachable was honoured %d times", width, n),
				map[string]interface{}{"round": i, "honoured": n, "statuses": codes})
		case n == 1:
			rep.Count("simultaneous_offline_honoured_once", 1)
		}
	}
}

// ---------------------------------------------------------------- race detector part

// TestVerifC16Race drives a mixed concurrent workload; built with -race by the
// driver.  Reports are written by the runtime to GORACE's log_path and parsed
// here at the end (this process keeps running: halt_on_error=0).
var c16RaceRep *verifReport

// The workload runs from TestMain, before any test starts: the testing package
// fails a test during which ANY race report was printed, including the
// out-of-scope ones (dependencies, start-up); the verdict here comes from the
// scoped classification of the reports instead.
func TestMain(m *testing.M) {
	if os.Getenv("VERIF_PRELUDE") == "c16race" {
		c16RaceRep = c16RaceWorkload()
		rc := m.Run()
		time.Sleep(500 * time.Millisecond) // let straggling goroutines finish their reports
		c16ParseRaceLogs(c16RaceRep)
		if !verifRaceEnabled {
			c16RaceRep.Inconc("the workload binary was not built with the race detector")
		}
		c16RaceRep.Extra["race_detector_enabled"] = verifRaceEnabled
		c16RaceRep.Floor("race_workload_done", 1)
		c16RaceRep.Finish()
		_ = rc // the testing package fails on any report, also out-of-scope ones: the verdict is in the result file
		os.Exit(0)
	}
	os.Exit(m.Run())
}

func TestVerifC16Race(t *testing.T) {
	if c16RaceRep == nil {
		rep := newVerifReport("C16", "race workload")
		rep.Inconc("the race workload did not run (VERIF_PRELUDE=c16race not set)")
		rep.Finish()
	}
	// the workload ran in TestMain; the reports are classified after m.Run()
}

type c16Fataler struct{}

func (c16Fataler) Fatal(a ...interface{}) { panic(fmt.Sprint(a...)) }

func c16RaceWorkload() *verifReport {
	var t c16Fataler
	rep := newVerifReport("C16", "(3) race detector (go test -race, halt_on_error=0) over a mixed concurrent workload on the real handlers: login, certificate issuance, U2F begin/finish, TOTP, token manage, push start/poll, OAuth2 begin, profile pages, an Okta deployment (logins racing second-factor requests over expired transactions) and the unseal transition racing readiness/public readers; reports de-duplicated by their innermost keymaster frames; in scope = no dependency frame innermost on either stack, at least one stack's innermost non-library frame lies in the keymaster module (the other too, or that stack is pure standard library) and a request-serving goroutine is involved; class = (workload step kind)")
	vip := newVerifFakeVIP()
	defer vip.Server.Close()
	idp := newVerifFakeIdP()
	verifNet.Handle("idp.verif.test", idp)
	env, err := verifNewEnv(verifStateOpts{Name: "c16race", AllowedCerts: []string{"U2F", "TOTP", "password"}, AllowedWebUI: []string{"password"}, AdminUsers: []string{"root1"},
		EnableTOTP: true, EnableBootstrap: true, VIP: true, Oauth2IdPHost: "idp.verif.test", CLILifetime: "1h", Users: map[string]string{"x": "y"}, KeepDBCopier: false})
	if err != nil {
		t.Fatal(err)
	}
	env.InstallFakeVIP(vip)
	env.SetPasswordChecker(verifPWFunc(func(u string, p []byte) (bool, error) { return string(p) == "pw-"+u, nil }))
	type usr struct {
		name, ck, secret string
		tok              *verifU2FToken
	}
	var users []*usr
	for i := 0; i < 3; i++ {
		u := &usr{name: fmt.Sprintf("r%d", i), tok: newVerifU2FToken()}
		u.ck, _ = verifLogin(env, u.name, "pw-"+u.name)
		verifEnrollU2F(env, u.ck, u.name, u.tok)
		u.secret, _ = verifEnrollTOTP(env, u.ck)
		vip.SetOTP(u.name, 123123)
		users = append(users, u)
	}
	workers, ops := 16, 60
	if verifThorough() {
		workers, ops = 32, 400
	}
	var wg sync.WaitGroup
	for wk := 0; wk < workers; wk++ {
		wg.Add(1)
		go func(wk int) {
			defer wg.Done()
			rng := verifRand(fmt.Sprintf("c16race-%d", wk))
			for i := 0; i < ops; i++ {
				u := users[rng.Intn(len(users))]
				kind := rng.Intn(12)
				switch kind {
				case 0:
					verifLogin(env, u.name, "pw-"+u.name)
				case 1:
					q := verifCertReq(u.name, []string{"ssh", "x509"}[rng.Intn(2)], map[bool]string{true: verifSSHAuthorizedKey(verifUserECKey().Public()), false: verifPKIXPEM(verifUserECKey().Public())}[true], "1h", nil)
					q.Cookies = verifCk(u.ck)
					env.Do(q.Build())
				case 2:
					if req, _ := verifU2FBegin(env, u.ck); req != nil && rng.Intn(2) == 0 {
						verifU2FFinish(env, u.ck, u.tok.SignResponse(req.AppID, req.Challenge))
					}
				case 3:
					env.Do(verifReq{Method: "POST", Path: "/api/v0/TOTPAuth", Form: url.Values{"OTP": {verifTOTPCode(u.secret, time.Now())}}, Cookies: verifCk(u.ck)}.Build())
				case 4:
					env.Do(verifReq{Method: "POST", Path: "/api/v0/manageTOTPToken", Form: url.Values{"username": {u.name}, "index": {"1"}, "action": {"Update"}, "name": {"n"}}, Cookies: verifCk(u.ck)}.Build())
				case 5:
					env.Do(verifReq{Method: "POST", Path: "/api/v0/vipPushStart", Cookies: map[string]string{"auth_cookie": u.ck, "vip_push_cookie": fmt.Sprintf("pc-%d-%d", wk, i)}}.Build())
					env.Do(verifReq{Method: "GET", Path: "/api/v0/vipPollCheck", Cookies: map[string]string{"auth_cookie": u.ck, "vip_push_cookie": fmt.Sprintf("pc-%d-%d", wk, i)}}.Build())
				case 6:
					env.Do(verifReq{Method: "GET", Path: "/auth/oauth2/login?login_destination=/profile/"}.Build())
				case 7:
					env.Do(verifReq{Method: "GET", Path: "/profile/", Cookies: verifCk(u.ck), Header: map[string]string{"Accept": "text/html"}}.Build())
				case 8:
					env.Do(verifReq{Method: "GET", Path: "/webauthn/AuthBegin/", Cookies: verifCk(u.ck)}.Build())
				case 9:
					env.Do(verifReq{Method: "GET", Path: "/public/x509ca"}.Build())
					env.Do(verifReq{Method: "GET", Path: "/idp/oauth2/jwks"}.Build())
				case 10:
					env.Do(verifReq{Method: "GET", Path: "/u2f/RegisterRequest/" + u.name, Cookies: verifCk(u.ck)}.Build())
				case 11:
					env.Do(verifReq{Method: "POST", Path: "/api/v0/vipAuth", Form: url.Values{"OTP": {"123123"}}, Cookies: verifCk(u.ck)}.Build())
				}
				rep.Eval(fmt.Sprintf("race-workload|op=%d", kind))
			}
		}(wk)
	}
	wg.Wait()
	// the relying-party endpoints on their own: many clients fetching the discovery document and the key set at the same
	// moment (what happens when a fleet of services restarts); responses built in shared or pooled buffers show up here
	{
		var wg2 sync.WaitGroup
		for wk := 0; wk < 16; wk++ {
			wg2.Add(1)
			go func() {
				defer wg2.Done()
				for i := 0; i < 40; i++ {
					env.Do(verifReq{Method: "GET", Path: "/.well-known/openid-configuration"}.Build())
					env.Do(verifReq{Method: "GET", Path: "/idp/oauth2/jwks"}.Build())
					rep.Eval("race-workload|op=idp-documents")
				}
			}()
		}
		wg2.Wait()
	}
	// Okta deployment: password logins (which fill the authenticator's per-user transaction cache) racing second-factor
	// requests of users whose cached transaction has expired (which evict from it)
	{
		okta := newVerifFakeOkta()
		verifNet.Handle("raceco.okta.com", okta)
		oenv, err := verifNewEnv(verifStateOpts{Name: "c16race-okta", AllowedCerts: []string{"Okta2FA"}, AllowedWebUI: []string{"password"}, OktaDomain: "raceco"})
		if err != nil {
			rep.Obs("okta race deployment: %v", err)
		} else {
			nU := 12
			cks := make([]string, nU)
			for i := 0; i < nU; i++ {
				u := fmt.Sprintf("ok%d", i)
				okta.mu.Lock()
				okta.Password[u], okta.OTP[u], okta.Push[u] = "pw-"+u, "654321", "WAITING"
				okta.Expired[u] = i%2 == 0
				okta.mu.Unlock()
				cks[i], _ = verifLogin(oenv, u, "pw-"+u)
			}
			var wg3 sync.WaitGroup
			for wk := 0; wk < workers; wk++ {
				wg3.Add(1)
				go func(wk int) {
					defer wg3.Done()
					rng := verifRand(fmt.Sprintf("c16race-okta-%d", wk))
					for i := 0; i < ops/2; i++ {
						k := rng.Intn(nU)
						u := fmt.Sprintf("ok%d", k)
						switch rng.Intn(4) {
						case 0:
							verifLogin(oenv, u, "pw-"+u)
						case 1:
							oenv.Do(verifReq{Method: "POST", Path: "/api/v0/okta2FAAuth", Form: url.Values{"OTP": {"654321"}}, Cookies: verifCk(cks[k])}.Build())
						case 2:
							oenv.Do(verifReq{Method: "POST", Path: "/api/v0/oktaPushStart", Cookies: verifCk(cks[k])}.Build())
						default:
							oenv.Do(verifReq{Method: "GET", Path: "/api/v0/oktaPollCheck", Cookies: verifCk(cks[k])}.Build())
						}
						rep.Eval(fmt.Sprintf("race-workload|okta|op=%d", i%4))
					}
				}(wk)
			}
			wg3.Wait()
			rep.Count("okta_race_workload_done", 1)
		}
	}
	// unseal transition racing readers (sealed deployment, K concurrent injections)
	senv, err := verifNewEnv(verifStateOpts{Name: "c16race-sealed", Sealed: true, Passphrase: "open sesame", ClientCA: true, AllowedWebUI: []string{"password"},
		AllowedCerts: []string{"password"}, Users: map[string]string{"x": "y"}})
	if err == nil {
		leaf := verifMakeLeaf("unlocker", verifUserECKey().Public(), verifClientCACert(), verifSigner("clientca_rsa2048"), time.Now().Add(-time.Hour), time.Now().Add(time.Hour), nil)
		cs := senv.TLSFor(leaf)
		var wg2 sync.WaitGroup
		for k := 0; k < 8; k++ {
			wg2.Add(2)
			go func(k int) {
				defer wg2.Done()
				pw := "open sesame"
				if k%2 == 1 {
					pw = "wrong"
				}
				senv.DoAdmin(verifReq{Method: "POST", Path: "/admin/inject", Form: url.Values{"ssh_ca_password": {pw}}, TLS: cs}.Build())
			}(k)
			go func() {
				defer wg2.Done()
				for j := 0; j < 20; j++ {
					senv.DoAdmin(verifReq{Method: "GET", Path: "/readyz"}.Build())
					senv.Do(verifReq{Method: "GET", Path: "/public/x509ca"}.Build())
					senv.Do(verifReq{Method: "GET", Path: "/idp/oauth2/jwks"}.Build())
				}
			}()
		}
		wg2.Wait()
		rep.Eval("race-workload|unseal-transition")
	}
	return rep
}

// c16ParseRaceLogs reads GORACE's log files written so far by this process.
func c16ParseRaceLogs(rep *verifReport) {
	gr := os.Getenv("GORACE")
	m := regexp.MustCompile(`log_path=(\S+)`).FindStringSubmatch(gr)
	if m == nil {
		rep.Inconc("GORACE log_path not set: the race detector's reports cannot be read (was the binary built with -race?)")
		return
	}
	c16ClassifyRaceLogs(rep, m[1], "")
	rep.Count("race_workload_done", 1)
}

// c16ClassifyRaceLogs reads the race detector's log files <prefix>* and reports the in-scope ones.
func c16ClassifyRaceLogs(rep *verifReport, prefix, label string) {
	files, _ := filepath.Glob(prefix + "*")
	var text string
	for _, f := range files {
		b, _ := os.ReadFile(f)
		text += string(b)
	}
	blocks := strings.Split(text, "WARNING: DATA RACE")
	rep.Extra["race_reports_raw"+label] = len(blocks) - 1
	seen := map[string]int{}
	inScope := map[string]string{}
	const km = "github.com/Cloud-Foundations/keymaster/"
	for _, b := range blocks[1:] {
		if i := strings.Index(b, "=================="); i >= 0 {
			b = b[:i]
		}
		secs := strings.Split(strings.TrimSpace(b), "\n\n")
		var tops []string
		handler := false
		for si, s := range secs {
			if strings.Contains(s, "ServeHTTP") || strings.Contains(s, "net/http.(*conn).serve") {
				handler = true // a request handler or the connection-serving goroutine around it (TLS handshake)
			}
			if si > 1 {
				continue // goroutine creation stacks
			}
			top := ""
			for _, line := range strings.Split(s, "\n") {
				if !strings.HasPrefix(line, "  ") || strings.HasPrefix(line, "   ") {
					continue // not a function line
				}
				fn := strings.TrimSpace(strings.SplitN(line, "(", 2)[0])
				first := strings.SplitN(fn, "/", 2)[0]
				isMain := strings.HasPrefix(fn, "main.") // the daemon binary's own package (engine B logs)
				if !isMain && (!strings.Contains(first, ".") || !strings.Contains(fn, "/")) {
					continue // runtime / standard library frame
				}
				if strings.HasPrefix(fn, km) || isMain {
					top = strings.SplitN(line, "()", 2)[0]
					top = strings.TrimSpace(top)
				} else {
					top = "dep:" + fn
				}
				break
			}
			tops = append(tops, top)
		}
		sort.Strings(tops)
		key := strings.Join(tops, " <-> ")
		seen[key]++
		// in scope: no dependency frame on top of either stack, at least one stack's innermost non-library frame is
		// keymaster's (the other's too, or that stack is pure standard library working on an object keymaster shares
		// with it, e.g. a TLS handshake reading a pool main() is modifying), and a serving goroutine is involved
		scope := len(tops) == 2 && (tops[0] != "" || tops[1] != "") && !strings.HasPrefix(tops[0], "dep:") && !strings.HasPrefix(tops[1], "dep:") && handler
		if strings.Contains(key, "verif") { // harness frames are not keymaster's
			scope = false
		}
		if scope {
			inScope[key] = firstLines(b, 40)
		}
	}
	var out []string
	for k, n := range seen {
		out = append(out, fmt.Sprintf("%dx %s", n, k))
	}
	sort.Strings(out)
	rep.Extra["race_report_classes"+label] = out
	for k, b := range inScope {
		fn := strings.NewReplacer("github.com/Cloud-Foundations/keymaster/cmd/keymasterd.", "", "(*RuntimeState).", "").Replace(k)
		rep.Violate("C16/data-race/"+label+fn, "the race detector reported a data race between request handlers", map[string]string{"frames": k, "report": b})
	}
	for k := range seen {
		if _, ok := inScope[k]; !ok {
			rep.Obs("race report outside the property's scope (dependency, start-up or harness frames): %s", k)
		}
	}
}
