package main

// Adapter: the ONLY harness file of this package that touches unexported
// identifiers of keymasterd.  Everything else speaks HTTP to the mux built
// here.  If a refactor renames one of these, the check fails to build (exit 2,
// "broken"), which is visible and not a verdict.

import (
	"bytes"
	"crypto"
	"crypto/tls"
	"crypto/x509"
	"database/sql"
	"encoding/pem"
	"errors"
	"fmt"
	"io"
	stdlog "log"
	"net/http"
	"net/http/httptest"
	"os"
	"path/filepath"
	"reflect"
	"runtime/debug"
	"sort"
	"strings"
	"sync"
	"sync/atomic"
	"time"
	"unsafe"

	"github.com/Cloud-Foundations/Dominator/lib/log/debuglogger"
	"github.com/Cloud-Foundations/keymaster/keymasterd/eventnotifier"
	"github.com/Cloud-Foundations/keymaster/lib/instrumentedwriter"
	"github.com/Cloud-Foundations/keymaster/lib/pwauth"
	"golang.org/x/crypto/bcrypt"
	"golang.org/x/crypto/openpgp"
	"golang.org/x/crypto/openpgp/armor"
)

const (
	verifHostIdentity = "keymaster.verif.test"
	verifHTTPAddress  = ":33443"
	verifAdminAddress = ":36920"
	verifHost         = verifHostIdentity + verifHTTPAddress
	verifIssuer       = "https://" + verifHost
)

// factor bits, by the names the operator uses in the configuration file
var verifBit = map[string]int{
	"password":      AuthTypePassword,
	"federated":     AuthTypeFederated,
	"U2F":           AuthTypeU2F,
	"SymantecVIP":   AuthTypeSymantecVIP,
	"IPCertificate": AuthTypeIPCertificate,
	"TOTP":          AuthTypeTOTP,
	"Okta2FA":       AuthTypeOkta2FA,
	"BootstrapOTP":  AuthTypeBootstrapOTP,
	"WebauthForCLI": AuthTypeWebauthForCLI,
	"KeymasterX509": AuthTypeKeymasterX509,
	"FIDO2":         AuthTypeFIDO2,
}

var verifMethodNames = []string{"password", "federated", "U2F", "SymantecVIP",
	"IPCertificate", "TOTP", "Okta2FA", "BootstrapOTP", "WebauthForCLI"}

func init() {
	w := io.Discard
	if os.Getenv("VERIF_LOG") != "" {
		w = os.Stderr
	}
	logger = debuglogger.New(stdlog.New(w, "", stdlog.LstdFlags))
	eventNotifier = eventnotifier.New(logger)
}

type verifMuxT interface {
	Handle(pattern string, handler http.Handler)
	HandleFunc(pattern string, handler func(http.ResponseWriter, *http.Request))
}

type verifRoute struct {
	Pattern string
}

type verifRecMux struct {
	mux    *http.ServeMux
	routes []verifRoute
}

func (m *verifRecMux) Handle(p string, h http.Handler) {
	m.routes = append(m.routes, verifRoute{p})
	m.mux.Handle(p, h)
}

func (m *verifRecMux) HandleFunc(p string, h func(http.ResponseWriter, *http.Request)) {
	m.routes = append(m.routes, verifRoute{p})
	m.mux.HandleFunc(p, h)
}

type verifNullAccessLogger struct{}

func (verifNullAccessLogger) Log(record instrumentedwriter.LogRecord) {}

type verifStateOpts struct {
	Name             string
	CAKey            string // fixture base name, default ca_rsa2048
	Ed25519          bool
	Sealed           bool
	Passphrase       string
	Users            map[string]string // htpasswd user -> password
	AllowedCerts     []string
	AllowedWebUI     []string
	AdminUsers       []string
	AdminGroups      []string
	AutomationUsers  []string
	AutomationAdmins []string
	AutomationGroups []string
	EnableTOTP       bool
	EnableBootstrap  bool
	CLILifetime      string
	ClientCA         bool
	KerberosRealm    string
	Burst, Rate      int
	DenyFPs          []string
	PublicKeysFile   bool
	PublicKeysList   []string // fixture names to list in the public keys file (default: the CA keys in use)
	PublicKeysRaw    string   // raw text appended to the public keys file (comments, blank lines, retired keys)
	DisableNormalize bool
	VIP              bool   // symantec VIP enabled (pointed at a fake by InstallFakeVIP)
	OktaDomain       string // okta password + 2FA backend (reached through verifNet)
	Oauth2IdPHost    string // federated login through a fake IdP host (reached through verifNet)
	NoHtpasswd       bool
	ExtraBase        string // raw yaml lines (indented 4) appended under base:
	ExtraTop         string // raw yaml appended at top level
	KeepDBCopier     bool
}

type verifEnv struct {
	Opts        verifStateOpts
	Dir         string
	State       *RuntimeState
	Svc         http.Handler
	Adm         http.Handler
	Routes      []verifRoute
	AdminRoutes []verifRoute
	panicMu     sync.Mutex
	Panics      []string
}

func verifFixture(name string) []byte {
	dir := os.Getenv("VERIF_FIXTURES")
	if dir == "" {
		dir = "/verif/harness/fixtures"
	}
	b, err := os.ReadFile(filepath.Join(dir, name+".pem"))
	if err != nil {
		panic(err)
	}
	return b
}

func verifYAMLList(items []string) string {
	if len(items) == 0 {
		return "[]"
	}
	q := make([]string, len(items))
	for i, s := range items {
		q[i] = fmt.Sprintf("%q", s)
	}
	return "[" + strings.Join(q, ", ") + "]"
}

func verifPGPArmor(plain []byte, passphrase string) []byte {
	buf := new(bytes.Buffer)
	aw, err := armor.Encode(buf, "PGP MESSAGE", nil)
	if err != nil {
		panic(err)
	}
	pw, err := openpgp.SymmetricallyEncrypt(aw, []byte(passphrase), nil, nil)
	if err != nil {
		panic(err)
	}
	pw.Write(plain)
	pw.Close()
	aw.Close()
	return buf.Bytes()
}

var verifScratchRoot = func() string {
	d := os.Getenv("VERIF_SCRATCH")
	if d == "" {
		d, _ = os.MkdirTemp("", "verif-km-")
	}
	return d
}()

var verifStateCounter int
var verifStateMu sync.Mutex

// verifNewEnv writes a configuration directory the way an operator would and
// builds the RuntimeState with the daemon's own loadVerifyConfigFile.
func verifNewEnv(o verifStateOpts) (*verifEnv, error) {
	verifStateMu.Lock()
	verifStateCounter++
	n := verifStateCounter
	verifStateMu.Unlock()
	dir := filepath.Join(verifScratchRoot, fmt.Sprintf("state-%d-%s", n, o.Name))
	if err := os.MkdirAll(filepath.Join(dir, "data"), 0755); err != nil {
		return nil, err
	}
	if o.CAKey == "" {
		o.CAKey = "ca_rsa2048"
	}
	caPEM := verifFixture(o.CAKey)
	edPEM := verifFixture("ca_ed25519")
	caFile := filepath.Join(dir, "ca.key")
	edFile := filepath.Join(dir, "ed.key")
	if o.Sealed {
		caPEM = verifPGPArmor(caPEM, o.Passphrase)
		edPEM = verifPGPArmor(edPEM, o.Passphrase)
	}
	os.WriteFile(caFile, caPEM, 0600)
	if o.Ed25519 {
		os.WriteFile(edFile, edPEM, 0600)
	}
	// TLS server pair
	certPEM, keyPEM := verifSelfSignedServerPair()
	os.WriteFile(filepath.Join(dir, "server.pem"), certPEM, 0644)
	os.WriteFile(filepath.Join(dir, "server.key"), keyPEM, 0600)
	// htpasswd
	var ht bytes.Buffer
	names := make([]string, 0, len(o.Users))
	for u := range o.Users {
		names = append(names, u)
	}
	sort.Strings(names)
	for _, u := range names {
		h, err := bcrypt.GenerateFromPassword([]byte(o.Users[u]), bcrypt.MinCost)
		if err != nil {
			return nil, err
		}
		// htpasswd's bcrypt marker; Go writes the equivalent $2a$
		fmt.Fprintf(&ht, "%s:%s\n", u, strings.Replace(string(h), "$2a$", "$2y$", 1))
	}
	if len(names) == 0 {
		h, _ := bcrypt.GenerateFromPassword([]byte("nobody-password"), bcrypt.MinCost)
		fmt.Fprintf(&ht, "nobody:%s\n", h)
	}
	os.WriteFile(filepath.Join(dir, "htpasswd"), ht.Bytes(), 0644)
	var y bytes.Buffer
	fmt.Fprintf(&y, "base:\n")
	fmt.Fprintf(&y, "    http_address: %q\n", verifHTTPAddress)
	fmt.Fprintf(&y, "    admin_address: %q\n", verifAdminAddress)
	fmt.Fprintf(&y, "    tls_cert_filename: %q\n", filepath.Join(dir, "server.pem"))
	fmt.Fprintf(&y, "    tls_key_filename: %q\n", filepath.Join(dir, "server.key"))
	fmt.Fprintf(&y, "    ssh_ca_filename: %q\n", caFile)
	if o.Ed25519 {
		fmt.Fprintf(&y, "    ed25519_ca_keyfilename: %q\n", edFile)
	}
	if !o.NoHtpasswd && o.OktaDomain == "" {
		fmt.Fprintf(&y, "    htpasswd_filename: %q\n", filepath.Join(dir, "htpasswd"))
	}
	fmt.Fprintf(&y, "    host_identity: %q\n", verifHostIdentity)
	fmt.Fprintf(&y, "    data_directory: %q\n", filepath.Join(dir, "data"))
	shared := os.Getenv("VERIF_SHARED_DATA")
	if shared == "" {
		shared = "/repo/cmd/keymasterd"
	}
	fmt.Fprintf(&y, "    shared_data_directory: %q\n", shared)
	fmt.Fprintf(&y, "    allowed_auth_backends_for_certs: %s\n", verifYAMLList(o.AllowedCerts))
	fmt.Fprintf(&y, "    allowed_auth_backends_for_webui: %s\n", verifYAMLList(o.AllowedWebUI))
	fmt.Fprintf(&y, "    admin_users: %s\n", verifYAMLList(o.AdminUsers))
	fmt.Fprintf(&y, "    admin_groups: %s\n", verifYAMLList(o.AdminGroups))
	fmt.Fprintf(&y, "    automation_users: %s\n", verifYAMLList(o.AutomationUsers))
	fmt.Fprintf(&y, "    automation_admins: %s\n", verifYAMLList(o.AutomationAdmins))
	fmt.Fprintf(&y, "    automation_user_groups: %s\n", verifYAMLList(o.AutomationGroups))
	fmt.Fprintf(&y, "    enable_local_totp: %v\n", o.EnableTOTP)
	fmt.Fprintf(&y, "    enable_bootstrapotp: %v\n", o.EnableBootstrap)
	if o.DisableNormalize {
		fmt.Fprintf(&y, "    disable_username_normalization: true\n")
	}
	if o.CLILifetime != "" {
		fmt.Fprintf(&y, "    webauth_token_for_cli_lifetime: %s\n", o.CLILifetime)
	}
	if o.KerberosRealm != "" {
		fmt.Fprintf(&y, "    kerberos_realm: %q\n", o.KerberosRealm)
	}
	if o.Burst == 0 && o.Rate == 0 {
		// not a throttling check: keep the limiter out of the way
		o.Burst, o.Rate = 100000000, 100000000
	}
	if o.Burst > 0 {
		fmt.Fprintf(&y, "    password_attempt_global_burst_limit: %d\n", o.Burst)
	}
	if o.Rate >= 0 {
		// written even when 0: an omitted line means the daemon's default (10/s), not "below the floor"
		fmt.Fprintf(&y, "    password_attempt_global_rate_limit: %d\n", o.Rate)
	}
	if o.ClientCA {
		pemBytes := verifClientCACertPEM()
		os.WriteFile(filepath.Join(dir, "clientca.pem"), pemBytes, 0644)
		fmt.Fprintf(&y, "    client_ca_filename: %q\n", filepath.Join(dir, "clientca.pem"))
	}
	if o.PublicKeysFile {
		content := verifAuthorizedKeysFor(o.CAKey, o.Ed25519)
		if o.PublicKeysList != nil {
			content = nil
			for _, fx := range o.PublicKeysList {
				content = append(content, []byte(verifSSHAuthorizedKey(verifSigner(fx).Public()))...)
			}
		}
		content = append(content, []byte(o.PublicKeysRaw)...)
		os.WriteFile(filepath.Join(dir, "kmkeys.pub"), content, 0644)
		fmt.Fprintf(&y, "    keymaster_public_keys_filename: %q\n", filepath.Join(dir, "kmkeys.pub"))
	}
	y.WriteString(o.ExtraBase)
	if len(o.DenyFPs) > 0 {
		fmt.Fprintf(&y, "denytrustdata:\n    key_deny_list_ssh_sha256: %s\n", verifYAMLList(o.DenyFPs))
	}
	if o.VIP {
		fmt.Fprintf(&y, "symantecvip:\n    enabled: true\n    cert_file: %q\n    key_file: %q\n",
			filepath.Join(dir, "server.pem"), filepath.Join(dir, "server.key"))
	}
	if o.OktaDomain != "" {
		fmt.Fprintf(&y, "okta:\n    domain: %q\n    enable_2fa: true\n", o.OktaDomain)
	}
	if o.Oauth2IdPHost != "" {
		fmt.Fprintf(&y, "oauth2:\n    enabled: true\n    client_id: \"km-client\"\n    client_secret: \"km-secret\"\n    token_url: \"https://%s/token\"\n    auth_url: \"https://%s/authorize\"\n    userinfo_url: \"https://%s/userinfo\"\n    scopes: \"openid email\"\n",
			o.Oauth2IdPHost, o.Oauth2IdPHost, o.Oauth2IdPHost)
	}
	y.WriteString(o.ExtraTop)
	cfg := filepath.Join(dir, "config.yml")
	if err := os.WriteFile(cfg, y.Bytes(), 0644); err != nil {
		return nil, err
	}
	state, err := loadVerifyConfigFile(cfg, logger)
	if err != nil {
		return nil, fmt.Errorf("loadVerifyConfigFile: %v\n%s", err, y.String())
	}
	if !o.KeepDBCopier {
		// the background copier would otherwise run on its own timer; the
		// harness drives synchronisation itself (C15).
		close(state.dbDone)
	}
	env := &verifEnv{Opts: o, Dir: dir, State: state}
	env.rebuildMux()
	return env, nil
}

func (e *verifEnv) rebuildMux() {
	svc := &verifRecMux{mux: http.NewServeMux()}
	verifRegisterServiceRoutes(e.State, svc)
	adm := &verifRecMux{mux: http.NewServeMux()}
	verifRegisterAdminRoutes(e.State, adm)
	e.Routes = svc.routes
	e.AdminRoutes = adm.routes
	e.Svc = instrumentedwriter.NewLoggingHandler(svc.mux, verifNullAccessLogger{})
	e.Adm = instrumentedwriter.NewLoggingHandler(
		NewLogFilterHandler(adm.mux, e.State.Config.Base.PublicLogs, e.State),
		verifNullAccessLogger{})
}

// ---- knobs on the configuration / state the monitors need -----------------

func (e *verifEnv) SetAllowedCerts(l []string) { e.State.Config.Base.AllowedAuthBackendsForCerts = l }
func (e *verifEnv) SetAllowedWebUI(l []string) { e.State.Config.Base.AllowedAuthBackendsForWebUI = l }
func (e *verifEnv) IsSealed() bool {
	e.State.Mutex.Lock()
	defer e.State.Mutex.Unlock()
	return e.State.Signer == nil
}
func (e *verifEnv) SetPasswordChecker(p pwauth.PasswordAuthenticator) { e.State.passwordChecker = p }
func (e *verifEnv) PasswordChecker() pwauth.PasswordAuthenticator     { return e.State.passwordChecker }
func (e *verifEnv) DB() *sql.DB                                       { return e.State.db }
func (e *verifEnv) CacheDB() *sql.DB                                  { return e.State.cacheDB }
func (e *verifEnv) SetDB(db *sql.DB)                                  { e.State.db = db }
func (e *verifEnv) SetCacheDB(db *sql.DB)                             { e.State.cacheDB = db }
func (e *verifEnv) SetRemoteDBTimeout(d time.Duration)                { e.State.remoteDBQueryTimeout = d }
func (e *verifEnv) SyncCache() error {
	return copyDBIntoSQLite(e.State.db, e.State.cacheDB, "sqlite")
}
func (e *verifEnv) UpsertSigned(user string, dataType int, expiration int64, data string) error {
	return e.State.UpsertSigned(user, dataType, expiration, data)
}
func (e *verifEnv) GetSigned(user string, dataType int) (bool, string, error) {
	return e.State.GetSigned(user, dataType)
}

// GetSignedFrom reads a signed record through the daemon's own reader, from the
// primary store or (forced, the daemon's own switch) from the offline cache.
func (e *verifEnv) GetSignedFrom(user string, dataType int, cache bool) (bool, string, error) {
	saved := e.State.remoteDBQueryTimeout
	if cache {
		e.State.remoteDBQueryTimeout = 0
	}
	defer func() { e.State.remoteDBQueryTimeout = saved }()
	return e.State.GetSigned(user, dataType)
}
func (e *verifEnv) DeleteSigned(user string, dataType int) error {
	return e.State.DeleteSigned(user, dataType)
}
func (e *verifEnv) CleanupExpired() {
	cleanupDBData(e.State.db)
	cleanupDBData(e.State.cacheDB)
}

// InstallFakeVIP points the VIP client (an external party) at the fake.
func (e *verifEnv) InstallFakeVIP(f *verifFakeVIP) {
	c := e.State.Config.SymantecVIP.Client
	c.VipUserServicesURL = f.Server.URL + "/query"
	c.VipUserServiceAuthenticationURL = f.Server.URL + "/auth"
	c.RootCAs = f.CertPool()
}

// ProfileBlob returns the stored (opaque) profile bytes of a user from the
// primary store, "" when absent.  SQL schema knowledge only.
func verifProfileBlob(db *sql.DB, user string) string {
	var b []byte
	err := db.QueryRow("select profile_data from user_profile where username = ?", user).Scan(&b)
	if err != nil {
		return ""
	}
	return string(b)
}

type verifTokView struct {
	Name    string
	Enabled bool
}

// verifProfileView: a normalised, comparable view of a stored profile.
type verifProfileView struct {
	Exists       bool
	U2F          map[int64]verifTokView
	TOTP         map[int64]verifTokView
	WebAuthn     map[int64]verifTokView
	BootstrapOTP bool
	BootstrapExp time.Time
	PendingTOTP  bool
	RegChallenge bool
	LastTOTPStep int64
	Registered2F bool
	Err          string
}

func (e *verifEnv) ProfileView(user string) verifProfileView {
	p, ok, _, err := e.State.LoadUserProfile(user)
	v := verifProfileView{Exists: ok, U2F: map[int64]verifTokView{}, TOTP: map[int64]verifTokView{}, WebAuthn: map[int64]verifTokView{}}
	if err != nil {
		v.Err = err.Error()
		return v
	}
	for i, t := range p.U2fAuthData {
		v.U2F[i] = verifTokView{t.Name, t.Enabled}
	}
	for i, t := range p.TOTPAuthData {
		v.TOTP[i] = verifTokView{t.Name, t.Enabled}
	}
	for i, t := range p.WebauthnData {
		v.WebAuthn[i] = verifTokView{t.Name, t.Enabled}
	}
	v.BootstrapOTP = len(p.BootstrapOTP.Sha512Hash) > 0
	v.BootstrapExp = p.BootstrapOTP.ExpiresAt
	v.PendingTOTP = p.PendingTOTPSecret != nil
	v.RegChallenge = p.RegistrationChallenge != nil
	v.LastTOTPStep = p.LastSuccessfullTOTPCounter
	v.Registered2F = p.UserHasRegistered2ndFactor
	return v
}

// TOTP limiter state of one user (in-memory): remaining lock-out and fail count.
func (e *verifEnv) TOTPLimiter(user string) (lockedFor time.Duration, failCount int, known bool) {
	e.State.totpLocalTateLimitMutex.Lock()
	defer e.State.totpLocalTateLimitMutex.Unlock()
	v, ok := e.State.totpLocalRateLimit[user]
	if !ok {
		return 0, 0, false
	}
	return time.Until(v.lockoutExpirationTime), int(v.failCount), true
}

// HoldTOTPLimiter takes the limiter's own mutex for d: requests arriving meanwhile queue on it (an injected delay at
// an existing suspension point) and are let through together.
func (e *verifEnv) HoldTOTPLimiter(d time.Duration, held chan struct{}) {
	e.State.totpLocalTateLimitMutex.Lock()
	close(held)
	time.Sleep(d)
	e.State.totpLocalTateLimitMutex.Unlock()
}

// ContendTOTPLimiter: n goroutines take and release the limiter's mutex in a loop until stop is closed (other users'
// submissions competing for the same lock).
func (e *verifEnv) ContendTOTPLimiter(n int, stop chan struct{}) {
	for i := 0; i < n; i++ {
		go func() {
			for {
				select {
				case <-stop:
					return
				default:
				}
				e.State.totpLocalTateLimitMutex.Lock()
				_ = e.State.totpLocalRateLimit["someone-else"]
				e.State.totpLocalTateLimitMutex.Unlock()
			}
		}()
	}
}

// ShiftTOTPLimiter makes the limiter state of user look d older ("d has passed").
func (e *verifEnv) ShiftTOTPLimiter(user string, d time.Duration) {
	e.State.totpLocalTateLimitMutex.Lock()
	defer e.State.totpLocalTateLimitMutex.Unlock()
	v, ok := e.State.totpLocalRateLimit[user]
	if !ok {
		return
	}
	sh := func(t time.Time) time.Time {
		if t.IsZero() {
			return t
		}
		return t.Add(-d)
	}
	v.lastCheckTime, v.lastFailTime, v.lockoutExpirationTime = sh(v.lastCheckTime), sh(v.lastFailTime), sh(v.lockoutExpirationTime)
	e.State.totpLocalRateLimit[user] = v
}

// AgeBootstrapOTP rewrites the stored profile so that the bootstrap OTP looks d
// older ("d has passed"): its expiry moves d into the past direction.
func (e *verifEnv) AgeBootstrapOTP(user string, d time.Duration) error {
	p, ok, _, err := e.State.LoadUserProfile(user)
	if err != nil || !ok {
		return fmt.Errorf("no profile for %s: %v", user, err)
	}
	p.BootstrapOTP.ExpiresAt = p.BootstrapOTP.ExpiresAt.Add(-d)
	return e.State.SaveUserProfile(user, p)
}

// HookDBs re-opens the primary and the cache database through the interposing
// driver (labels "primary:<env>" and "cache:<env>").
func (e *verifEnv) HookDBs() (primaryLabel, cacheLabel string, err error) {
	primaryLabel, cacheLabel = "primary:"+e.Opts.Name, "cache:"+e.Opts.Name
	pdb, err := verifOpenHooked(primaryLabel, e.PrimaryDBPath())
	if err != nil {
		return "", "", err
	}
	cdb, err := verifOpenHooked(cacheLabel, e.CacheDBPath())
	if err != nil {
		return "", "", err
	}
	old1, old2 := e.State.db, e.State.cacheDB
	e.State.db, e.State.cacheDB = pdb, cdb
	old1.Close()
	old2.Close()
	return primaryLabel, cacheLabel, nil
}

func (e *verifEnv) PrimaryDBPath() string { return filepath.Join(e.Dir, "data", profileDBFilename) }
func (e *verifEnv) CacheDBPath() string   { return filepath.Join(e.Dir, "data", cachedDBFilename) }

// SetOutage closes / opens the gate of the primary store and sets the primary
// read deadline accordingly (short while out, long while healthy so that a
// loaded machine cannot fake an outage).
func (e *verifEnv) SetOutage(g *verifOutage, on bool) {
	if on {
		g.Close()
		e.State.remoteDBQueryTimeout = 120 * time.Millisecond
	} else {
		g.Open()
		e.State.remoteDBQueryTimeout = 20 * time.Second
	}
}

// GitDBGroups: what the GitDB user-information source currently says (nil source -> nil).
func (e *verifEnv) GitDBGroups(user string) []string {
	if e.State.gitDB == nil {
		return nil
	}
	g, _ := e.State.gitDB.GetUserGroups(user)
	return g
}

// ---- profile round trips (C15) ------------------------------------------------

// verifValuesDiffer compares two values field-wise; time.Time by Equal, nil and
// empty maps/slices alike.  Returns "" or the path of the first difference.
func verifValuesDiffer(a, b reflect.Value, path string) string {
	if a.IsValid() != b.IsValid() {
		return path + ": validity"
	}
	if !a.IsValid() {
		return ""
	}
	if a.Type() != b.Type() {
		return path + ": type"
	}
	if ta, ok := a.Interface().(time.Time); ok && a.CanInterface() {
		if !ta.Equal(b.Interface().(time.Time)) {
			return fmt.Sprintf("%s: %v != %v", path, ta, b.Interface())
		}
		return ""
	}
	switch a.Kind() {
	case reflect.Ptr, reflect.Interface:
		if a.IsNil() || b.IsNil() {
			if a.IsNil() != b.IsNil() {
				return path + ": nil-ness"
			}
			return ""
		}
		return verifValuesDiffer(a.Elem(), b.Elem(), path)
	case reflect.Struct:
		if a.Type().String() == "x509.Certificate" {
			ra, rb := a.FieldByName("Raw").Bytes(), b.FieldByName("Raw").Bytes()
			if string(ra) != string(rb) {
				return path + ".Raw"
			}
			return ""
		}
		if a.Type().String() == "big.Int" {
			if fmt.Sprint(a.Addr().Interface()) != fmt.Sprint(b.Addr().Interface()) {
				return path + ": big.Int"
			}
			return ""
		}
		for i := 0; i < a.NumField(); i++ {
			if !a.Type().Field(i).IsExported() {
				continue
			}
			if d := verifValuesDiffer(a.Field(i), b.Field(i), path+"."+a.Type().Field(i).Name); d != "" {
				return d
			}
		}
		return ""
	case reflect.Map:
		if a.Len() != b.Len() {
			return fmt.Sprintf("%s: map len %d != %d", path, a.Len(), b.Len())
		}
		for _, k := range a.MapKeys() {
			bv := b.MapIndex(k)
			if !bv.IsValid() {
				return fmt.Sprintf("%s[%v]: missing", path, k)
			}
			if d := verifValuesDiffer(a.MapIndex(k), bv, fmt.Sprintf("%s[%v]", path, k)); d != "" {
				return d
			}
		}
		return ""
	case reflect.Slice, reflect.Array:
		if a.Len() != b.Len() {
			return fmt.Sprintf("%s: len %d != %d", path, a.Len(), b.Len())
		}
		for i := 0; i < a.Len(); i++ {
			if d := verifValuesDiffer(a.Index(i), b.Index(i), fmt.Sprintf("%s[%d]", path, i)); d != "" {
				return d
			}
		}
		return ""
	case reflect.Func, reflect.Chan:
		return ""
	default:
		if a.CanInterface() && b.CanInterface() {
			if !reflect.DeepEqual(a.Interface(), b.Interface()) {
				return fmt.Sprintf("%s: %v != %v", path, a.Interface(), b.Interface())
			}
		}
		return ""
	}
}

// verifMutateProfile fills a stored profile (made by real enrolment flows) with
// generated values in every field, saves it, and reads it back from the primary
// store and (after the caller synchronised) from the cache.
func (e *verifEnv) GenerateProfileFrom(src, dst string, rng interface{ Intn(int) int }) (*userProfile, error) {
	p, ok, _, err := e.State.LoadUserProfile(src)
	if err != nil || !ok {
		return nil, fmt.Errorf("source profile %s: ok=%v err=%v", src, ok, err)
	}
	rb := func(n int) []byte {
		b := make([]byte, n)
		for i := range b {
			b[i] = byte(rng.Intn(256))
		}
		return b
	}
	rs := func() string {
		al := "abcXYZ 019-_/.é世"
		r := []rune(al)
		n := rng.Intn(12)
		o := make([]rune, n)
		for i := range o {
			o[i] = r[rng.Intn(len(r))]
		}
		return string(o)
	}
	rt := func() time.Time {
		return time.Unix(int64(rng.Intn(2000000000)), int64(rng.Intn(1000000000))).In([]*time.Location{time.UTC, time.Local, time.FixedZone("x", 3600*5+1800)}[rng.Intn(3)])
	}
	// duplicate the real registrations under generated indices / flags
	var regs []*u2fAuthData
	for _, r := range p.U2fAuthData {
		regs = append(regs, r)
	}
	p.U2fAuthData = map[int64]*u2fAuthData{}
	for i := 0; i < rng.Intn(4) && len(regs) > 0; i++ {
		r := *regs[rng.Intn(len(regs))]
		r.Name, r.Enabled, r.Counter, r.CreatedAt, r.CreatorAddr = rs(), rng.Intn(2) == 0, uint32(rng.Intn(1<<30)), rt(), rs()
		p.U2fAuthData[int64(rng.Intn(1<<30))-int64(rng.Intn(3))] = &r
	}
	p.TOTPAuthData = map[int64]*totpAuthData{}
	for i := 0; i < rng.Intn(4); i++ {
		p.TOTPAuthData[int64(rng.Intn(1<<30))] = &totpAuthData{Enabled: rng.Intn(2) == 0, CreatedAt: rt(), Name: rs(),
			EncryptedSecret: [][]byte{rb(rng.Intn(300)), rb(rng.Intn(5))}, TOTPType: rng.Intn(3), ValidatorAddr: rs()}
	}
	if rng.Intn(2) == 0 {
		sec := [][]byte{rb(256)}
		p.PendingTOTPSecret = &sec
	} else {
		p.PendingTOTPSecret = nil
	}
	p.LastSuccessfullTOTPCounter = int64(rng.Intn(1 << 30))
	p.BootstrapOTP = bootstrapOTPData{ExpiresAt: rt(), Sha512Hash: rb(64)}
	p.UserHasRegistered2ndFactor = rng.Intn(2) == 0
	p.WebauthnData = map[int64]*webauthAuthData{}
	for i := 0; i < rng.Intn(3); i++ {
		w := &webauthAuthData{Enabled: rng.Intn(2) == 0, CreatedAt: rt(), Name: rs()}
		w.Credential.ID, w.Credential.PublicKey, w.Credential.AttestationType = rb(32), rb(77), []string{"fido-u2f", "packed", "none"}[rng.Intn(3)]
		w.Credential.Authenticator.AAGUID, w.Credential.Authenticator.SignCount, w.Credential.Authenticator.CloneWarning = rb(16), uint32(rng.Intn(1<<20)), rng.Intn(2) == 0
		p.WebauthnData[int64(rng.Intn(1<<30))] = w
	}
	p.WebauthnID, p.DisplayName, p.Username = uint64(rng.Intn(1<<30))<<20, rs(), dst
	if rng.Intn(2) == 0 && p.RegistrationChallenge != nil {
		p.RegistrationChallenge.Timestamp = rt()
	}
	// save under dst: start from dst's own (possibly absent) stored profile and
	// copy the exported fields over, as a handler modifying dst's profile would
	d, _, _, err := e.State.LoadUserProfile(dst)
	if err != nil {
		return nil, err
	}
	sv, dv := reflect.ValueOf(p).Elem(), reflect.ValueOf(d).Elem()
	for i := 0; i < sv.NumField(); i++ {
		if sv.Type().Field(i).IsExported() {
			dv.Field(i).Set(sv.Field(i))
		}
	}
	if err := e.State.SaveUserProfile(dst, d); err != nil {
		return nil, err
	}
	return d, nil
}

// LoadProfileFrom reads a profile through the daemon's own loader, from the
// primary store or (forced) from the offline cache.
func (e *verifEnv) LoadProfileFrom(user string, cache bool) (*userProfile, bool, error) {
	saved := e.State.remoteDBQueryTimeout
	if cache {
		e.State.remoteDBQueryTimeout = 0 // the daemon's own switch for "use the cache"
	} else {
		e.State.remoteDBQueryTimeout = 20 * time.Second
	}
	defer func() { e.State.remoteDBQueryTimeout = saved }()
	p, ok, fromCache, err := e.State.LoadUserProfile(user)
	if err == nil && fromCache != cache {
		return nil, false, fmt.Errorf("asked cache=%v got fromCache=%v", cache, fromCache)
	}
	return p, ok, err
}

func verifProfilesDiffer(a, b *userProfile) string {
	return verifValuesDiffer(reflect.ValueOf(a), reflect.ValueOf(b), "profile")
}

// ResetVolatile clears the in-memory per-user state (pending challenges, push
// transactions, TOTP limiter) so that schedules start from the same point.
func (e *verifEnv) ResetVolatile() {
	e.State.Mutex.Lock()
	for k := range e.State.localAuthData {
		delete(e.State.localAuthData, k)
	}
	for k := range e.State.vipPushCookie {
		delete(e.State.vipPushCookie, k)
	}
	e.State.Mutex.Unlock()
	e.State.totpLocalTateLimitMutex.Lock()
	for k := range e.State.totpLocalRateLimit {
		delete(e.State.totpLocalRateLimit, k)
	}
	e.State.totpLocalTateLimitMutex.Unlock()
	// the per-user profile versions live in memory only: after a restart every stored profile is at version 0
	// (looked up by name: the harness must build whatever the tree calls or lacks them)
	sv := reflect.ValueOf(e.State).Elem()
	if f, m := sv.FieldByName("profileVersion"), sv.FieldByName("profileVersionMutex"); f.IsValid() && f.Kind() == reflect.Map && m.IsValid() {
		if mu, ok := reflect.NewAt(m.Type(), unsafe.Pointer(m.UnsafeAddr())).Interface().(sync.Locker); ok {
			mu.Lock()
			reflect.NewAt(f.Type(), unsafe.Pointer(f.UnsafeAddr())).Elem().Set(reflect.MakeMap(f.Type()))
			mu.Unlock()
		}
	}
}

// WatchSignerReady mirrors main(): one goroutine receives from SignerIsReady.
// Returned func reports (values received by "main", values left in the channel).
func (e *verifEnv) WatchSignerReady() func() (int, int) {
	var mu sync.Mutex
	got := 0
	go func() {
		for v := range e.State.SignerIsReady {
			mu.Lock()
			if v {
				got++
			}
			mu.Unlock()
			if got == 1 {
				return // main() reads exactly once
			}
		}
	}()
	return func() (int, int) {
		mu.Lock()
		defer mu.Unlock()
		return got, len(e.State.SignerIsReady)
	}
}

// verifPublishSentinel publishes a marker event through the daemon's notifier.
func verifPublishSentinel(name string) { eventNotifier.PublishAuthEvent("verif-sentinel", name) }

// CA certificates exactly as main() adds them to the TLS client pool.
func (e *verifEnv) ClientCAPool() *x509.CertPool {
	pool := x509.NewCertPool()
	if e.Opts.ClientCA {
		pool.AppendCertsFromPEM(verifClientCACertPEM())
	}
	for _, der := range e.State.caCertDer {
		c, err := x509.ParseCertificate(der)
		if err != nil {
			panic(err)
		}
		pool.AddCert(c)
	}
	if len(e.State.selfRoleCaCertDer) > 0 { // empty while sealed
		c, err := x509.ParseCertificate(e.State.selfRoleCaCertDer)
		if err != nil {
			panic(err)
		}
		pool.AddCert(c)
	}
	return pool
}

func (e *verifEnv) UserCACert() *x509.Certificate {
	c, err := x509.ParseCertificate(e.State.caCertDer[len(e.State.caCertDer)-1])
	if err != nil {
		panic(err)
	}
	return c
}

func (e *verifEnv) RoleCACert() *x509.Certificate {
	c, err := x509.ParseCertificate(e.State.selfRoleCaCertDer)
	if err != nil {
		panic(err)
	}
	return c
}

// virtual clock for the 5-minute admin memo (field `clock` of admincache.Cache)
type verifClock struct {
	mu  sync.Mutex
	now time.Time
}

func (c *verifClock) Now() time.Time {
	c.mu.Lock()
	defer c.mu.Unlock()
	return c.now
}
func (c *verifClock) Advance(d time.Duration) {
	c.mu.Lock()
	c.now = c.now.Add(d)
	c.mu.Unlock()
}

func (e *verifEnv) InstallAdminClock() (*verifClock, time.Duration, error) {
	v := reflect.ValueOf(e.State.isAdminCache).Elem()
	f := v.FieldByName("clock")
	md := v.FieldByName("maxDuration")
	if !f.IsValid() || !md.IsValid() {
		return nil, 0, fmt.Errorf("admincache.Cache has no clock/maxDuration field")
	}
	clk := &verifClock{now: time.Now()}
	reflect.NewAt(f.Type(), unsafe.Pointer(f.UnsafeAddr())).Elem().Set(reflect.ValueOf(clk))
	return clk, time.Duration(md.Int()), nil
}

// ---- request execution -----------------------------------------------------

type verifResp struct {
	Code    int
	Header  http.Header
	Body    []byte
	Panic   string
	Cookies []*http.Cookie
}

func (r *verifResp) Cookie(name string) *http.Cookie {
	for _, c := range r.Cookies {
		if c.Name == name {
			return c
		}
	}
	return nil
}

func (e *verifEnv) serve(h http.Handler, req *http.Request) (resp *verifResp) {
	rec := httptest.NewRecorder()
	resp = &verifResp{}
	func() {
		defer func() {
			if p := recover(); p != nil {
				resp.Panic = fmt.Sprintf("%v\n%s", p, debug.Stack())
				e.panicMu.Lock()
				e.Panics = append(e.Panics, resp.Panic)
				e.panicMu.Unlock()
			}
		}()
		h.ServeHTTP(rec, req)
	}()
	res := rec.Result()
	resp.Code = res.StatusCode
	resp.Header = res.Header
	resp.Body = rec.Body.Bytes()
	resp.Cookies = res.Cookies()
	return resp
}

func (e *verifEnv) Do(req *http.Request) *verifResp      { return e.serve(e.Svc, req) }
func (e *verifEnv) DoAdmin(req *http.Request) *verifResp { return e.serve(e.Adm, req) }

// verifTLSState builds r.TLS the way crypto/tls would after
// VerifyClientCertIfGiven: VerifiedChains comes from x509.Verify against the
// pool main() builds, never hand-assembled.
func (e *verifEnv) TLSFor(leaf *x509.Certificate) *tls.ConnectionState {
	cs := &tls.ConnectionState{HandshakeComplete: true, Version: tls.VersionTLS13}
	if leaf == nil {
		return cs
	}
	cs.PeerCertificates = []*x509.Certificate{leaf}
	chains, err := leaf.Verify(x509.VerifyOptions{
		Roots:     e.ClientCAPool(),
		KeyUsages: []x509.ExtKeyUsage{x509.ExtKeyUsageClientAuth},
	})
	if err != nil {
		// a real handshake would have been refused; model it as "no cert"
		return nil
	}
	cs.VerifiedChains = chains
	return cs
}

func verifPEMCert(der []byte) []byte {
	return pem.EncodeToMemory(&pem.Block{Type: "CERTIFICATE", Bytes: der})
}

// ---- signer faults (C02) ---------------------------------------------------------

// verifFaultySigner is the CA signer behind an HSM / agent that starts failing: Public() keeps working, Sign() errors.
type verifFaultySigner struct {
	inner crypto.Signer
	fail  *int32
}

func (f verifFaultySigner) Public() crypto.PublicKey { return f.inner.Public() }
func (f verifFaultySigner) Sign(r io.Reader, digest []byte, opts crypto.SignerOpts) ([]byte, error) {
	if atomic.LoadInt32(f.fail) != 0 {
		return nil, errors.New("verif: signing device unavailable")
	}
	return f.inner.Sign(r, digest, opts)
}

// SetSignerFault wraps (on) or restores (off) the daemon's CA signers.
func (e *verifEnv) SetSignerFault(on bool) {
	e.State.Mutex.Lock()
	defer e.State.Mutex.Unlock()
	unwrap := func(s crypto.Signer) crypto.Signer {
		if f, ok := s.(verifFaultySigner); ok {
			return f.inner
		}
		return s
	}
	e.State.Signer = unwrap(e.State.Signer)
	if e.State.Ed25519Signer != nil {
		e.State.Ed25519Signer = unwrap(e.State.Ed25519Signer)
	}
	if on {
		one := int32(1)
		e.State.Signer = verifFaultySigner{e.State.Signer, &one}
		if e.State.Ed25519Signer != nil {
			e.State.Ed25519Signer = verifFaultySigner{e.State.Ed25519Signer, &one}
		}
	}
}
