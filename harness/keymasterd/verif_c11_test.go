package main

// C11 (HTTP part): IP-restricted automation certificates, minted by the real
// administrator route, authenticate a request iff the TCP peer lies inside one
// of their netblocks; refresh keeps identity and netblocks and works only from
// inside; corrupted extensions never widen access.

import (
	"crypto/x509"
	"crypto/x509/pkix"
	"encoding/asn1"
	"fmt"
	"net"
	"sort"
	"strings"
	"testing"
	"time"
)

// independent decoder of the RFC 3779 extension -> sorted "a.b.c.d/len" list
func verifDecodeIPExt(c *x509.Certificate) ([]string, error) {
	for _, e := range c.Extensions {
		if !e.Id.Equal(asn1.ObjectIdentifier(verifOIDIPDelegation)) {
			continue
		}
		var fams []verifIPFam
		rest, err := asn1.Unmarshal(e.Value, &fams)
		if err != nil || len(rest) != 0 {
			return nil, fmt.Errorf("bad extension: %v", err)
		}
		var out []string
		for _, f := range fams {
			if len(f.AddressFamily) < 2 || f.AddressFamily[0] != 0 || f.AddressFamily[1] != 1 {
				return nil, fmt.Errorf("family %x", f.AddressFamily)
			}
			for _, a := range f.Addresses {
				if a.BitLength > 32 {
					return nil, fmt.Errorf("bit length %d", a.BitLength)
				}
				var ip [4]byte
				copy(ip[:], a.Bytes)
				out = append(out, fmt.Sprintf("%d.%d.%d.%d/%d", ip[0], ip[1], ip[2], ip[3], a.BitLength))
			}
		}
		sort.Strings(out)
		return out, nil
	}
	return nil, fmt.Errorf("no address extension")
}

func c11u32(s string) uint32 {
	ip := net.ParseIP(s).To4()
	return uint32(ip[0])<<24 | uint32(ip[1])<<16 | uint32(ip[2])<<8 | uint32(ip[3])
}

func c11str(u uint32) string { return fmt.Sprintf("%d.%d.%d.%d", u>>24, u>>16&255, u>>8&255, u&255) }

func c11inside(blocks []string, ip uint32) bool {
	for _, b := range blocks {
		parts := strings.Split(b, "/")
		var l int
		fmt.Sscanf(parts[1], "%d", &l)
		var mask uint32
		if l > 0 {
			mask = ^uint32(0) << (32 - l)
		}
		if ip&mask == c11u32(parts[0])&mask {
			return true
		}
	}
	return false
}

type c11HTTPCase struct {
	Blocks []string `json:"blocks"`
	Peer   string   `json:"peer"`
	Route  string   `json:"route"`
	Inside bool     `json:"inside_by_oracle"`
	Status int      `json:"status"`
	Note   string   `json:"note,omitempty"`
	Fwd    string   `json:"proxy_headers_claimed,omitempty"`
}

// hand-rolled DER: { family IPv4 unicast, { block containing 198.51.100.9, 40-bit block } } in both orders
var c11ValidThenMalformed = [][]byte{
	{0x30, 0x14, 0x30, 0x12, 0x04, 0x03, 0x00, 0x01, 0x01, 0x30, 0x0b, 0x03, 0x01, 0x00, 0x03, 0x06, 0x00, 0x01, 0x02, 0x03, 0x04, 0x05},
	{0x30, 0x14, 0x30, 0x12, 0x04, 0x03, 0x00, 0x01, 0x01, 0x30, 0x0b, 0x03, 0x06, 0x00, 0x01, 0x02, 0x03, 0x04, 0x05, 0x03, 0x01, 0x00},
	{0x30, 0x18, 0x30, 0x16, 0x04, 0x03, 0x00, 0x01, 0x01, 0x30, 0x0f, 0x03, 0x05, 0x00, 0xc6, 0x33, 0x64, 0x09, 0x03, 0x06, 0x00, 0x01, 0x02, 0x03, 0x04, 0x05},
	{0x30, 0x18, 0x30, 0x16, 0x04, 0x03, 0x00, 0x01, 0x01, 0x30, 0x0f, 0x03, 0x06, 0x00, 0x01, 0x02, 0x03, 0x04, 0x05, 0x03, 0x05, 0x00, 0xc6, 0x33, 0x64, 0x09},
}

// c11WrappedLengthExts: one IPv4 block whose bit length is a legal prefix
// length only modulo 2^8 or 2^16 (256 bits, 256+16 with the peer's leading
// octets, 65536, ...).  Oversized blocks are malformed whatever their
// length is congruent to.
func c11WrappedLengthExts() [][]byte {
	type fam struct {
		AddressFamily []byte
		Addresses     []asn1.BitString
	}
	var out [][]byte
	for _, base := range []int{256, 512, 768, 65536} {
		for _, d := range []int{0, 8, 16, 24, 32} {
			by := make([]byte, (base+d)/8)
			copy(by, []byte{198, 51, 100, 9})
			b, err := asn1.Marshal([]fam{{AddressFamily: []byte{0, 1, 1}, Addresses: []asn1.BitString{{Bytes: by, BitLength: base + d}}}})
			if err == nil {
				out = append(out, b)
			}
		}
	}
	return out
}

func TestVerifC11Http(t *testing.T) {
	rep := newVerifReport("C11", "HTTP: automation certificates minted through the real admin route for seeded netblock lists (prefix 0..32) presented with real verified chains from boundary peers to the certificate, user-admin, mint and refresh routes; admitted <=> inside (uint32 oracle) and only on routes that take IP certificates; refresh output decoded (same CN, same netblocks); corrupted extensions never admit an outside peer; class = (route, prefix length, peer position, outcome)")
	defer rep.Finish()
	rng := verifRand("c11http")
	env, err := verifNewEnv(verifStateOpts{Name: "c11", Users: map[string]string{"root1": "root1-pw"},
		AllowedCerts: []string{"IPCertificate"}, AllowedWebUI: []string{"password"}, AdminUsers: []string{"root1", "autobot"},
		AutomationUsers: []string{"autobot"}, ClientCA: true})
	if err != nil {
		t.Fatal(err)
	}
	rootCk, _ := verifLogin(env, "root1", "root1-pw")
	if rootCk == "" {
		t.Fatal("admin login failed")
	}
	key := verifUserECKey()
	nLists := 14
	if verifThorough() {
		nLists = 600
	}
	var lists [][]string
	lists = append(lists, []string{"10.20.0.0/16", "192.168.7.128/25"}, []string{"127.0.0.0/8"}, []string{"0.0.0.0/0"}, []string{"203.0.113.77/32"},
		[]string{"128.0.0.0/1"}, []string{"10.0.0.0/31", "10.0.0.4/30"})
	for len(lists) < nLists {
		var l []string
		for k := 1 + rng.Intn(3); k > 0; k-- {
			pl := 1 + rng.Intn(32)
			ip := rng.Uint32()
			if pl < 32 {
				ip = ip >> (32 - pl) << (32 - pl)
			}
			l = append(l, fmt.Sprintf("%s/%d", c11str(ip), pl))
		}
		lists = append(lists, l)
	}
	for _, blocks := range lists {
		q := verifRoleMintReq("autobot", key.Public(), blocks, []string{"10.0.0.0/8"}, nil)
		q.Cookies = map[string]string{"auth_cookie": rootCk}
		resp := env.Do(q.Build())
		rep.Eval(fmt.Sprintf("mint|n=%d|%d", len(blocks), resp.Code))
		if resp.Code != 200 {
			rep.Violate("C11/http/mint-refused", "administrator could not mint an automation certificate for well-formed netblocks", c11HTTPCase{Blocks: blocks, Status: resp.Code})
			continue
		}
		cert, err := verifParseX509PEM(resp.Body)
		if err != nil {
			rep.Violate("C11/http/mint-unparsable", err.Error(), c11HTTPCase{Blocks: blocks})
			continue
		}
		want := append([]string{}, blocks...)
		sort.Strings(want)
		got, derr := verifDecodeIPExt(cert)
		if derr != nil || fmt.Sprint(got) != fmt.Sprint(want) {
			rep.Violate("C11/http/minted-netblocks-differ", "netblocks in the minted certificate differ from the requested ones", map[string]interface{}{"requested": want, "in_cert": got, "err": fmt.Sprint(derr)})
			continue
		}
		rep.Count("minted", 1)
		cs := env.TLSFor(cert)
		if cs == nil {
			rep.Violate("C11/http/minted-cert-untrusted", "the minted certificate does not verify against the server's own client-CA pool", c11HTTPCase{Blocks: blocks})
			continue
		}
		// peers: boundaries of each block + far + random + IPv6
		type peer struct {
			addr string
			pos  string
			v4   uint32
			v6   bool
			hdr  map[string]string
		}
		var peers []peer
		for _, b := range blocks {
			parts := strings.Split(b, "/")
			var l int
			fmt.Sscanf(parts[1], "%d", &l)
			n := c11u32(parts[0])
			var host uint32 = ^uint32(0)
			if l > 0 {
				host = ^(^uint32(0) << (32 - l))
			}
			if l == 32 {
				host = 0
			}
			for pos, u := range map[string]uint32{"network": n, "broadcast": n | host, "below": n - 1, "above": (n | host) + 1, "far": n ^ 0x80000000} {
				peers = append(peers, peer{c11str(u) + ":40000", pos, u, false, nil})
			}
		}
		peers = append(peers, peer{c11str(rng.Uint32()) + ":40000", "random", 0, false, nil})
		peers[len(peers)-1].v4 = c11u32(strings.Split(peers[len(peers)-1].addr, ":")[0])
		peers = append(peers, peer{"[2001:db8::10]:40000", "ipv6", 0, true, nil})
		// the decision is about the TCP peer: proxy-style headers naming another address must change nothing,
		// whichever peer sends them (loopback included) and in either direction
		insideAddr, outsideAddr := "", ""
		for _, p := range peers {
			if p.v6 {
				continue
			}
			if c11inside(blocks, p.v4) && insideAddr == "" {
				insideAddr = strings.Split(p.addr, ":")[0]
			}
			if !c11inside(blocks, p.v4) && outsideAddr == "" {
				outsideAddr = strings.Split(p.addr, ":")[0]
			}
		}
		fwd := func(a string) map[string]string {
			return map[string]string{"X-Forwarded-For": a, "X-Real-Ip": a, "X-Real-IP": a, "Forwarded": "for=" + a, "X-Client-Ip": a, "True-Client-Ip": a}
		}
		if insideAddr != "" {
			for _, tcp := range []string{"127.0.0.1", "127.0.0.2", "[::1]", outsideAddr} {
				if tcp == "" {
					continue
				}
				pp := peer{addr: tcp + ":40000", pos: "forwarded-claims-inside", hdr: fwd(insideAddr)}
				if strings.HasPrefix(tcp, "[") {
					pp.v6 = true
				} else {
					pp.v4 = c11u32(tcp)
				}
				peers = append(peers, pp)
			}
		}
		if insideAddr != "" && outsideAddr != "" {
			peers = append(peers, peer{addr: insideAddr + ":40000", pos: "forwarded-claims-outside", v4: c11u32(insideAddr), hdr: fwd(outsideAddr)})
		}
		for _, p := range peers {
			inside := !p.v6 && c11inside(blocks, p.v4)
			routes := []struct {
				name    string
				takesIP bool
				req     verifReq
			}{
				{"certgen", true, verifCertReq("autobot", "x509", verifPKIXPEM(key.Public()), "1h", nil)},
				{"refresh", true, verifRoleRefreshReq(key.Public())},
				{"users", false, verifReq{Method: "GET", Path: "/users/"}},
				{"role-mint", false, verifRoleMintReq("autobot", key.Public(), []string{"0.0.0.0/0"}, []string{"0.0.0.0/0"}, nil)},
				{"profile", false, verifReq{Method: "GET", Path: "/profile/"}},
			}
			for _, rt := range routes {
				q := rt.req
				q.TLS = cs
				q.RemoteAddr = p.addr
				if p.hdr != nil {
					q.Header = map[string]string{}
					for k, v := range rt.req.Header {
						q.Header[k] = v
					}
					for k, v := range p.hdr {
						q.Header[k] = v
					}
				}
				resp := env.Do(q.Build())
				c := c11HTTPCase{Blocks: blocks, Peer: p.addr, Route: rt.name, Inside: inside, Status: resp.Code}
				if p.hdr != nil {
					c.Fwd = p.hdr["X-Forwarded-For"]
					if inside && rt.takesIP {
						rep.Count("forwarded_headers_inside_peer", 1)
					} else if rt.takesIP {
						rep.Count("forwarded_headers_outside_peer", 1)
					}
				}
				adm := resp.Code == 200
				rep.Eval(fmt.Sprintf("%s|%s|inside=%v|admitted=%v", rt.name, p.pos, inside, adm))
				if resp.Panic != "" {
					rep.Violate("C11/http/panic/"+rt.name, "handler panicked", map[string]interface{}{"case": c, "panic": firstLines(resp.Panic, 10)})
					continue
				}
				should := inside && rt.takesIP
				switch {
				case adm && !inside:
					c.Note = "an IP-restricted certificate authenticated a request from outside its netblocks"
					rep.Violate("C11/http/admitted-outside/"+rt.name, c.Note, c)
				case adm && !rt.takesIP:
					c.Note = "an IP-restricted certificate was admitted on a route that does not take IP certificates"
					rep.Violate("C11/http/admitted-on-non-ip-route/"+rt.name, c.Note, c)
				case !adm && should:
					c.Note = "an IP-restricted certificate was refused from inside its netblocks"
					rep.Violate("C11/http/refused-inside/"+rt.name, c.Note, c)
				case !adm && len(verifSignedMaterial(resp)) > 0:
					rep.Violate("C11/http/signed-material-on-refusal/"+rt.name, "signed material in a refusal", c)
				default:
					rep.Count(fmt.Sprintf("ok_%s_admitted_%v", rt.name, adm), 1)
					rep.Sample(fmt.Sprintf("%s:%v", rt.name, adm), 1, c)
				}
				if adm && rt.name == "refresh" {
					nc, err := verifParseX509PEM(resp.Body)
					if err != nil {
						rep.Violate("C11/http/refresh-unparsable", err.Error(), c)
						continue
					}
					gb, derr := verifDecodeIPExt(nc)
					if nc.Subject.CommonName != "autobot" || derr != nil || fmt.Sprint(gb) != fmt.Sprint(want) {
						rep.Violate("C11/http/refresh-changes-identity-or-netblocks", "refreshed certificate differs in identity or netblocks",
							map[string]interface{}{"before": want, "after": gb, "cn": nc.Subject.CommonName, "err": fmt.Sprint(derr)})
					} else if env.TLSFor(nc) == nil {
						rep.Violate("C11/http/refresh-untrusted", "refreshed certificate does not verify", c)
					} else {
						rep.Count("refresh_same_identity_and_blocks", 1)
					}
				}
			}
		}
	}
	// corrupted extensions in a certificate from the trusted role CA: never admitted from 198.51.100.9
	ca := verifSigner("ca_rsa2048")
	nCorrupt := 150
	if verifThorough() {
		nCorrupt = 20000
	}
	good := verifIPExtension([]net.IPNet{mustCIDR("10.20.0.0/16")}).Value
	fixedCorrupt := append(append([][]byte{}, c11ValidThenMalformed...), c11WrappedLengthExts()...)
	nCorrupt += len(fixedCorrupt)
	for i := 0; i < nCorrupt; i++ {
		val := append([]byte{}, good...)
		if i < len(fixedCorrupt) {
			// a block that contains the peer next to an oversized one, or an oversized block alone: malformed as a whole
			val = append([]byte{}, fixedCorrupt[i]...)
		} else if i%3 == 0 {
			val = c10RandomIPExt(rng)
		} else {
			for k := 1 + rng.Intn(3); k > 0; k-- {
				val[rng.Intn(len(val))] ^= byte(1 << rng.Intn(8))
			}
		}
		leaf := verifMakeLeaf("autobot", key.Public(), env.RoleCACert(), ca, time.Now().Add(-time.Hour), time.Now().Add(time.Hour),
			[]pkix.Extension{{Id: verifOIDIPDelegation, Value: val}})
		cs := env.TLSFor(leaf)
		if cs == nil {
			continue
		}
		peerU := uint32(0xc6336409) // 198.51.100.9
		// what the extension really says, decoded independently
		blocks, derr := verifDecodeIPExt(leaf)
		legit := derr == nil && c11inside(blocks, peerU)
		for _, rt := range []string{"certgen", "refresh"} {
			q := verifRoleRefreshReq(key.Public())
			if rt == "certgen" {
				q = verifCertReq("autobot", "x509", verifPKIXPEM(key.Public()), "1h", nil)
			}
			q.TLS = cs
			q.RemoteAddr = "198.51.100.9:555"
			resp := env.Do(q.Build())
			rep.Eval(fmt.Sprintf("corrupt|%s|wf=%v|%d", rt, derr == nil, resp.Code/100))
			c := map[string]interface{}{"extension_hex": fmt.Sprintf("%x", val), "route": rt, "status": resp.Code}
			if resp.Panic != "" {
				rep.Violate("C11/http/panic-on-corrupted-extension/"+rt, "handler panicked", map[string]interface{}{"case": c, "panic": firstLines(resp.Panic, 10)})
			} else if resp.Code == 200 && !legit {
				rep.Violate("C11/http/corrupted-extension-widens/"+rt, "a corrupted extension admitted an outside peer", c)
			} else {
				rep.Count("corrupt_not_admitted", 1)
			}
		}
	}
	rep.Floor("minted", 10)
	rep.Floor("ok_certgen_admitted_true", 10)
	rep.Floor("ok_certgen_admitted_false", 10)
	rep.Floor("ok_refresh_admitted_true", 10)
	rep.Floor("ok_refresh_admitted_false", 10)
	rep.Floor("refresh_same_identity_and_blocks", 10)
	rep.Floor("corrupt_not_admitted", 100)
	rep.Floor("forwarded_headers_outside_peer", 10)
	rep.Floor("forwarded_headers_inside_peer", 5)
}
