package main

// Independent artefact tooling: nothing in this file calls keymasterd code.
// Minter (go-jose), decoders (x/crypto/ssh, crypto/x509), signed-material
// detector, client-certificate factory, request builder.

import (
	"bytes"
	"crypto"
	"crypto/ecdsa"
	"crypto/ed25519"
	"crypto/elliptic"
	"crypto/rand"
	"crypto/rsa"
	"crypto/sha256"
	"crypto/tls"
	"crypto/x509"
	"crypto/x509/pkix"
	"encoding/base64"
	"encoding/json"
	"encoding/pem"
	"fmt"
	"math/big"
	"mime/multipart"
	"net/http"
	"net/http/httptest"
	"net/url"
	"regexp"
	"runtime"
	"strings"
	"sync"
	"time"

	"github.com/Cloud-Foundations/keymaster/lib/simplestorage"
	"github.com/go-jose/go-jose/v4"
	"golang.org/x/crypto/ssh"
)

// ---------------------------------------------------------------- keys

var verifKeyCache sync.Map

func verifSigner(fixture string) crypto.Signer {
	if v, ok := verifKeyCache.Load(fixture); ok {
		return v.(crypto.Signer)
	}
	block, _ := pem.Decode(verifFixture(fixture))
	if block == nil {
		panic("bad fixture " + fixture)
	}
	var s crypto.Signer
	switch block.Type {
	case "RSA PRIVATE KEY":
		k, err := x509.ParsePKCS1PrivateKey(block.Bytes)
		if err != nil {
			panic(err)
		}
		s = k
	case "EC PRIVATE KEY":
		k, err := x509.ParseECPrivateKey(block.Bytes)
		if err != nil {
			panic(err)
		}
		s = k
	case "PRIVATE KEY":
		k, err := x509.ParsePKCS8PrivateKey(block.Bytes)
		if err != nil {
			panic(err)
		}
		s = k.(crypto.Signer)
	default:
		panic("unknown fixture type " + block.Type)
	}
	verifKeyCache.Store(fixture, s)
	return s
}

func verifJoseAlg(pub crypto.PublicKey) jose.SignatureAlgorithm {
	switch k := pub.(type) {
	case *rsa.PublicKey:
		return jose.RS256
	case ed25519.PublicKey:
		return jose.EdDSA
	case *ecdsa.PublicKey:
		switch k.Curve {
		case elliptic.P256():
			return jose.ES256
		case elliptic.P384():
			return jose.ES384
		default:
			return jose.ES512
		}
	}
	panic("unknown key")
}

func verifAuthorizedKeysFor(caFixture string, ed bool) []byte {
	var out bytes.Buffer
	p, err := ssh.NewPublicKey(verifSigner(caFixture).Public())
	if err != nil {
		panic(err)
	}
	out.Write(ssh.MarshalAuthorizedKey(p))
	if ed {
		p, _ := ssh.NewPublicKey(verifSigner("ca_ed25519").Public())
		out.Write(ssh.MarshalAuthorizedKey(p))
	}
	return out.Bytes()
}

func verifSelfSignedServerPair() (certPEM, keyPEM []byte) {
	k, _ := ecdsa.GenerateKey(elliptic.P256(), rand.Reader)
	tmpl := &x509.Certificate{
		SerialNumber: big.NewInt(time.Now().UnixNano()),
		Subject:      pkix.Name{CommonName: verifHostIdentity},
		DNSNames:     []string{verifHostIdentity, "localhost"},
		NotBefore:    time.Now().Add(-time.Hour),
		NotAfter:     time.Now().Add(240 * time.Hour),
		KeyUsage:     x509.KeyUsageDigitalSignature,
		ExtKeyUsage:  []x509.ExtKeyUsage{x509.ExtKeyUsageServerAuth},
	}
	der, err := x509.CreateCertificate(rand.Reader, tmpl, tmpl, &k.PublicKey, k)
	if err != nil {
		panic(err)
	}
	kb, _ := x509.MarshalECPrivateKey(k)
	return pem.EncodeToMemory(&pem.Block{Type: "CERTIFICATE", Bytes: der}),
		pem.EncodeToMemory(&pem.Block{Type: "EC PRIVATE KEY", Bytes: kb})
}

var verifClientCAOnce sync.Once
var verifClientCADer []byte

func verifClientCACert() *x509.Certificate {
	verifClientCAOnce.Do(func() {
		k := verifSigner("clientca_rsa2048")
		tmpl := &x509.Certificate{
			SerialNumber:          big.NewInt(7),
			Subject:               pkix.Name{CommonName: "verif client CA", Organization: []string{"verif"}},
			NotBefore:             time.Now().Add(-time.Hour),
			NotAfter:              time.Now().Add(240 * time.Hour),
			KeyUsage:              x509.KeyUsageCertSign | x509.KeyUsageDigitalSignature,
			ExtKeyUsage:           []x509.ExtKeyUsage{x509.ExtKeyUsageClientAuth},
			IsCA:                  true,
			BasicConstraintsValid: true,
		}
		der, err := x509.CreateCertificate(rand.Reader, tmpl, tmpl, k.Public(), k)
		if err != nil {
			panic(err)
		}
		verifClientCADer = der
	})
	c, _ := x509.ParseCertificate(verifClientCADer)
	return c
}

func verifClientCACertPEM() []byte {
	verifClientCACert()
	return verifPEMCert(verifClientCADer)
}

// verifMakeLeaf signs a client certificate for pub with (parent, parentKey).
func verifMakeLeaf(cn string, pub crypto.PublicKey, parent *x509.Certificate,
	parentKey crypto.Signer, notBefore, notAfter time.Time,
	extra []pkix.Extension) *x509.Certificate {
	serial, _ := rand.Int(rand.Reader, new(big.Int).Lsh(big.NewInt(1), 100))
	tmpl := &x509.Certificate{
		SerialNumber:          serial,
		Subject:               pkix.Name{CommonName: cn},
		NotBefore:             notBefore,
		NotAfter:              notAfter,
		KeyUsage:              x509.KeyUsageDigitalSignature | x509.KeyUsageKeyEncipherment,
		ExtKeyUsage:           []x509.ExtKeyUsage{x509.ExtKeyUsageClientAuth},
		BasicConstraintsValid: true,
		ExtraExtensions:       extra,
	}
	der, err := x509.CreateCertificate(rand.Reader, tmpl, parent, pub, parentKey)
	if err != nil {
		panic(err)
	}
	c, err := x509.ParseCertificate(der)
	if err != nil {
		panic(err)
	}
	return c
}

var verifUserKeyOnce sync.Once
var verifUserEC *ecdsa.PrivateKey

func verifUserECKey() *ecdsa.PrivateKey {
	verifUserKeyOnce.Do(func() {
		verifUserEC, _ = ecdsa.GenerateKey(elliptic.P256(), rand.Reader)
	})
	return verifUserEC
}

func verifSSHAuthorizedKey(pub crypto.PublicKey) string {
	p, err := ssh.NewPublicKey(pub)
	if err != nil {
		panic(err)
	}
	return string(ssh.MarshalAuthorizedKey(p))
}

func verifPKIXPEM(pub crypto.PublicKey) string {
	der, err := x509.MarshalPKIXPublicKey(pub)
	if err != nil {
		panic(err)
	}
	return string(pem.EncodeToMemory(&pem.Block{Type: "PUBLIC KEY", Bytes: der}))
}

// RFC 3779 address-family extension, written independently of lib/certgen
// (used for hostile/corrupted extensions; well-formed ones come from the
// server's own mint route).
var verifOIDIPDelegation = []int{1, 3, 6, 1, 5, 5, 7, 1, 7}

// ---------------------------------------------------------------- minter

type verifClaims map[string]interface{}

func verifSessionClaims(sub string, bits int, iat time.Time, life time.Duration) verifClaims {
	return verifClaims{
		"iss": verifIssuer, "sub": sub, "aud": []string{verifIssuer},
		"nbf": iat.Unix(), "iat": iat.Unix(), "exp": iat.Add(life).Unix(),
		"token_type": "keymaster_auth", "auth_type": bits,
	}
}

func (c verifClaims) clone() verifClaims {
	o := verifClaims{}
	for k, v := range c {
		o[k] = v
	}
	return o
}

// verifMint signs claims with key using the key's natural algorithm.
func verifMint(claims verifClaims, key crypto.Signer) string {
	return verifMintAlg(claims, jose.SigningKey{Algorithm: verifJoseAlg(key.Public()), Key: key}, nil)
}

func verifMintAlg(claims verifClaims, sk jose.SigningKey, hdr map[jose.HeaderKey]interface{}) string {
	opts := (&jose.SignerOptions{}).WithType("JWT")
	for k, v := range hdr {
		opts = opts.WithHeader(k, v)
	}
	signer, err := jose.NewSigner(sk, opts)
	if err != nil {
		panic(err)
	}
	payload, _ := json.Marshal(claims)
	obj, err := signer.Sign(payload)
	if err != nil {
		panic(err)
	}
	s, err := obj.CompactSerialize()
	if err != nil {
		panic(err)
	}
	return s
}

func verifB64(b []byte) string { return base64.RawURLEncoding.EncodeToString(b) }

// verifMintNone builds an unsecured JWS (alg none).
func verifMintNone(claims verifClaims) string {
	payload, _ := json.Marshal(claims)
	return verifB64([]byte(`{"alg":"none","typ":"JWT"}`)) + "." + verifB64(payload) + "."
}

// verifMintHMACWithPublicKey: classic confusion attack, HS* keyed with an
// encoding of the verifier's public key.
func verifMintHMACWithPublicKey(claims verifClaims, alg jose.SignatureAlgorithm, keyBytes []byte) string {
	return verifMintAlg(claims, jose.SigningKey{Algorithm: alg, Key: keyBytes}, nil)
}

// verifSplitJWS returns decoded header, payload, signature of a compact JWS.
func verifSplitJWS(tok string) (h, p, s []byte, ok bool) {
	parts := strings.Split(tok, ".")
	if len(parts) != 3 {
		return nil, nil, nil, false
	}
	var err error
	if h, err = base64.RawURLEncoding.DecodeString(parts[0]); err != nil {
		return nil, nil, nil, false
	}
	if p, err = base64.RawURLEncoding.DecodeString(parts[1]); err != nil {
		return nil, nil, nil, false
	}
	if s, err = base64.RawURLEncoding.DecodeString(parts[2]); err != nil {
		return nil, nil, nil, false
	}
	return h, p, s, true
}

func verifJoinJWS(h, p, s []byte) string {
	return verifB64(h) + "." + verifB64(p) + "." + verifB64(s)
}

// verifVerifyJWS verifies tok against the given public keys and returns its
// claims (independent of keymasterd's own verification).
func verifVerifyJWS(tok string, keys []crypto.PublicKey) (verifClaims, bool) {
	obj, err := jose.ParseSigned(tok, []jose.SignatureAlgorithm{jose.RS256, jose.ES256,
		jose.ES384, jose.ES512, jose.EdDSA})
	if err != nil {
		return nil, false
	}
	for _, k := range keys {
		payload, err := obj.Verify(k)
		if err == nil {
			var c verifClaims
			if json.Unmarshal(payload, &c) != nil {
				return nil, false
			}
			return c, true
		}
	}
	return nil, false
}

func verifClaimInt(c verifClaims, k string) int64 {
	switch v := c[k].(type) {
	case float64:
		return int64(v)
	case int:
		return int64(v)
	case int64:
		return v
	case json.Number:
		n, _ := v.Int64()
		return n
	}
	return 0
}

func verifClaimStr(c verifClaims, k string) string {
	s, _ := c[k].(string)
	return s
}

// ---------------------------------------------------------------- requests

type verifReq struct {
	Method     string
	Path       string // may include ?query
	Form       url.Values
	Multipart  map[string]string // field -> value
	FileField  string
	FileData   string
	RawBody    []byte
	RawCT      string
	Header     map[string]string
	Cookies    map[string]string
	CookieList [][2]string // ordered (name, value) pairs, duplicates allowed; sent before Cookies
	BasicUser  string
	BasicPass  string
	UseBasic   bool
	RemoteAddr string
	TLS        *tls.ConnectionState
	NoTLS      bool
	Host       string
}

func (q verifReq) Build() *http.Request {
	method := q.Method
	if method == "" {
		method = "GET"
	}
	var body *bytes.Buffer = &bytes.Buffer{}
	ct := ""
	switch {
	case q.RawBody != nil:
		body = bytes.NewBuffer(q.RawBody)
		ct = q.RawCT
	case q.FileField != "" || q.Multipart != nil:
		mw := multipart.NewWriter(body)
		if q.FileField != "" {
			fw, _ := mw.CreateFormFile(q.FileField, "upload.pub")
			fw.Write([]byte(q.FileData))
		}
		for k, v := range q.Multipart {
			mw.WriteField(k, v)
		}
		mw.Close()
		ct = mw.FormDataContentType()
	case q.Form != nil:
		body = bytes.NewBufferString(q.Form.Encode())
		ct = "application/x-www-form-urlencoded"
	}
	host := q.Host
	if host == "" {
		host = verifHost
	}
	req := httptest.NewRequest(method, "https://"+host+q.Path, body)
	req.Host = host
	if ct != "" {
		req.Header.Set("Content-Type", ct)
	}
	for k, v := range q.Header {
		req.Header.Set(k, v)
	}
	for _, kv := range q.CookieList {
		req.AddCookie(&http.Cookie{Name: kv[0], Value: kv[1]})
	}
	for k, v := range q.Cookies {
		req.AddCookie(&http.Cookie{Name: k, Value: v})
	}
	if q.UseBasic {
		req.SetBasicAuth(q.BasicUser, q.BasicPass)
	}
	if q.RemoteAddr != "" {
		req.RemoteAddr = q.RemoteAddr
	} else {
		req.RemoteAddr = "127.0.0.1:40000"
	}
	if q.NoTLS {
		req.TLS = nil
	} else if q.TLS != nil {
		req.TLS = q.TLS
	} else {
		req.TLS = &tls.ConnectionState{HandshakeComplete: true, Version: tls.VersionTLS13}
	}
	return req
}

func (q verifReq) Summary() map[string]interface{} {
	m := map[string]interface{}{"method": q.Method, "path": q.Path}
	if q.Form != nil {
		m["form"] = q.Form
	}
	if q.Multipart != nil {
		m["multipart"] = q.Multipart
	}
	if q.Header != nil {
		m["header"] = q.Header
	}
	if q.RemoteAddr != "" {
		m["remote"] = q.RemoteAddr
	}
	if q.UseBasic {
		m["basic_user"] = q.BasicUser
	}
	ck := []string{}
	for k := range q.Cookies {
		ck = append(ck, k)
	}
	if len(ck) > 0 {
		m["cookies"] = ck
	}
	if q.TLS != nil && len(q.TLS.PeerCertificates) > 0 {
		m["client_cert_cn"] = q.TLS.PeerCertificates[0].Subject.CommonName
	}
	return m
}

// ---------------------------------------------------------------- decoding

type verifSSHCertInfo struct {
	Cert *ssh.Certificate
	Raw  []byte
}

// verifParseSSHCert parses a "<type> <b64> <comment>" body into a certificate.
func verifParseSSHCert(body []byte) (*ssh.Certificate, error) {
	pk, _, _, _, err := ssh.ParseAuthorizedKey(body)
	if err != nil {
		return nil, err
	}
	c, ok := pk.(*ssh.Certificate)
	if !ok {
		return nil, fmt.Errorf("not a certificate: %s", pk.Type())
	}
	return c, nil
}

func verifParseX509PEM(body []byte) (*x509.Certificate, error) {
	b, _ := pem.Decode(body)
	if b == nil || b.Type != "CERTIFICATE" {
		return nil, fmt.Errorf("no CERTIFICATE pem block")
	}
	return x509.ParseCertificate(b.Bytes)
}

var verifJWSRe = regexp.MustCompile(`eyJ[A-Za-z0-9_-]{8,}\.[A-Za-z0-9_-]{8,}\.[A-Za-z0-9_-]{16,}`)
var verifSSHCertRe = regexp.MustCompile(`(ssh-rsa|ssh-ed25519|ecdsa-sha2-nistp(256|384|521)|ssh-dss)-cert-v01@openssh\.com [A-Za-z0-9+/=]{40,}`)

// verifSignedMaterial lists signed artefacts leaving in a response:
// auth cookies, compact JWS anywhere, SSH certificates, non-CA X.509 certs.
func verifSignedMaterial(r *verifResp) []string {
	var out []string
	for _, c := range r.Cookies {
		if c.Name == "auth_cookie" && c.Value != "" {
			out = append(out, "auth_cookie")
		}
	}
	hay := string(r.Body)
	for k, vs := range r.Header {
		if k == "Set-Cookie" {
			continue
		}
		for _, v := range vs {
			hay += "\n" + v
			if u, err := url.QueryUnescape(v); err == nil {
				hay += "\n" + u
			}
		}
	}
	if m := verifJWSRe.FindString(hay); m != "" {
		if h, _, _, ok := verifSplitJWS(m); ok && bytes.Contains(h, []byte(`"alg"`)) {
			out = append(out, "jws")
		}
	}
	if verifSSHCertRe.MatchString(hay) {
		out = append(out, "ssh-cert")
	}
	rest := r.Body
	for {
		var b *pem.Block
		b, rest = pem.Decode(rest)
		if b == nil {
			break
		}
		if b.Type == "CERTIFICATE" {
			if c, err := x509.ParseCertificate(b.Bytes); err == nil && !c.IsCA {
				out = append(out, "x509-cert")
			}
		}
	}
	return out
}

func verifSHA256Hex(b []byte) string {
	h := sha256.Sum256(b)
	return fmt.Sprintf("%x", h[:])
}

func verifSSHFingerprintHex(pub crypto.PublicKey) string {
	p, err := ssh.NewPublicKey(pub)
	if err != nil {
		panic(err)
	}
	return verifSHA256Hex(p.Marshal())
}

// ---------------------------------------------------------------- fake internet

// verifFakeNet replaces the process-wide default HTTP transport: requests are
// routed by host name to in-process handlers standing in for the external
// parties (AWS STS, Okta, the OAuth2 identity provider).  Everything else is
// refused: the sandbox has no network and nothing else should be dialled.
type verifFakeNet struct {
	mu       sync.Mutex
	handlers map[string]http.Handler
	Calls    map[string]int
}

var verifNet = &verifFakeNet{handlers: map[string]http.Handler{}, Calls: map[string]int{}}
var verifNetOnce sync.Once

func (f *verifFakeNet) Handle(host string, h http.Handler) {
	verifNetOnce.Do(func() { http.DefaultTransport = verifNet })
	f.mu.Lock()
	f.handlers[host] = h
	f.mu.Unlock()
}

func (f *verifFakeNet) RoundTrip(r *http.Request) (*http.Response, error) {
	f.mu.Lock()
	h := f.handlers[r.URL.Host]
	f.Calls[r.URL.Host]++
	f.mu.Unlock()
	if h == nil {
		return nil, fmt.Errorf("verif: network is not available (%s)", r.URL.Host)
	}
	rec := httptest.NewRecorder()
	r2 := r.Clone(r.Context())
	if r2.Body == nil {
		r2.Body = http.NoBody
	}
	r2.RequestURI = r.URL.RequestURI()
	h.ServeHTTP(rec, r2)
	res := rec.Result()
	res.Request = r
	return res, nil
}

func (f *verifFakeNet) CallCount(host string) int {
	f.mu.Lock()
	defer f.mu.Unlock()
	return f.Calls[host]
}

// fake AWS STS: the "signature" of the presigned URL names the caller,
// X-Verif-Role=<account>:<role>
func verifSTSHandler(w http.ResponseWriter, r *http.Request) {
	who := r.URL.Query().Get("X-Verif-Role")
	if who == "" {
		w.WriteHeader(403)
		return
	}
	parts := strings.SplitN(who, ":", 2)
	fmt.Fprintf(w, `<GetCallerIdentityResponse xmlns="https://sts.amazonaws.com/doc/2011-06-15/"><GetCallerIdentityResult><Arn>arn:aws:sts::%s:assumed-role/%s/session-1</Arn><UserId>AROAEXAMPLE:session-1</UserId><Account>%s</Account></GetCallerIdentityResult></GetCallerIdentityResponse>`,
		parts[0], parts[1], parts[0])
}

func verifInstallFakeSTS() {
	verifNet.Handle("sts.us-east-1.amazonaws.com", http.HandlerFunc(verifSTSHandler))
}

var verifPresignSeq int64

// verifCloudRoleReq builds the request a cloud workload would send.
func verifCloudRoleReq(account, role, claimedArn, pemKey string) verifReq {
	verifStateMu.Lock()
	verifPresignSeq++
	n := verifPresignSeq
	verifStateMu.Unlock()
	return verifReq{Method: "POST", Path: "/aws/requestRoleCertificate/v1",
		RawBody: []byte(pemKey), RawCT: "application/x-pem-file",
		Header: map[string]string{
			"Claimed-Arn":      claimedArn,
			"Presigned-Method": "GET",
			"Presigned-URL": fmt.Sprintf("https://sts.us-east-1.amazonaws.com/?Action=GetCallerIdentity&Version=2011-06-15&X-Verif-Role=%s:%s&n=%d",
				account, role, n),
		}}
}

// verifRoleMintReq: administrator asks for an IP-restricted automation cert.
func verifRoleMintReq(identity string, pub crypto.PublicKey, requestor, target []string, extra url.Values) verifReq {
	der, err := x509.MarshalPKIXPublicKey(pub)
	if err != nil {
		panic(err)
	}
	f := url.Values{"identity": {identity}, "pubkey": {base64.RawURLEncoding.EncodeToString(der)}}
	for _, r := range requestor {
		f.Add("requestor_netblock", r)
	}
	for _, r := range target {
		f.Add("target_netblock", r)
	}
	for k, v := range extra {
		f[k] = v
	}
	return verifReq{Method: "POST", Path: "/v1/getRoleRequestingCert", Form: f}
}

func verifRoleRefreshReq(pub crypto.PublicKey) verifReq {
	der, err := x509.MarshalPKIXPublicKey(pub)
	if err != nil {
		panic(err)
	}
	return verifReq{Method: "POST", Path: "/v1/refreshRoleRequestingCert",
		Form: url.Values{"pubkey": {base64.RawURLEncoding.EncodeToString(der)}}}
}

// ---------------------------------------------------------------- password backend stand-in

// verifPWFunc is a password backend (an external party) given as a function.
type verifPWFunc func(user string, password []byte) (bool, error)

func (f verifPWFunc) PasswordAuthenticate(user string, password []byte) (bool, error) {
	return f(user, password)
}
func (f verifPWFunc) UpdateStorage(s simplestorage.SimpleStore) error { return nil }

func timeNow() time.Time { return time.Now() }

func mustPKIXDER(pub crypto.PublicKey) []byte {
	der, err := x509.MarshalPKIXPublicKey(pub)
	if err != nil {
		panic(err)
	}
	return der
}

func runtimeStack(buf []byte) int { return runtime.Stack(buf, true) }
