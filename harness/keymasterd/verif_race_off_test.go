//go:build !race

package main

const verifRaceEnabled = false
