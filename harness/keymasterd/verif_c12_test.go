package main

// C12 - OpenID tokens go only to the right client and name the right user.
//
// Oracle: tokens may be released only if
//   (client has a secret and the presented secret is right) or
//   (client is secret-less and the verifier matches the challenge bound into the code)
//   and code.subject == that client, the code is unexpired, the redirect URI is
//   identical, the artefact is a well-signed authorization code.
// On release the ID token / access token are decoded and checked; the canonical
// happy paths must succeed (vacuity guard).

import (
	"crypto"
	"crypto/sha256"
	"encoding/base64"
	"encoding/json"
	"fmt"
	"net/url"
	"os"
	"strings"
	"testing"
	"time"

	"github.com/go-jose/go-jose/v4"
)

type c12Client struct {
	ID     string
	Secret string
}

type c12Code struct {
	Name      string
	Code      string
	Client    string // client it was issued to
	User      string
	Redirect  string
	Nonce     string
	Challenge string // "" = none
	Method    string // S256 | "" (plain by default)
	Verifier  string
	Valid     bool // well-signed, unexpired authorization code
	AuthAfter time.Time
	// remint obtains a new code by the same authorization request (nil for derived, invalid codes).  A code that has
	// been redeemed is replaced at once: whether the tree treats codes as single use or not, every later probe -
	// positive or negative - then meets a code that is still redeemable, so no refusal is owed to an earlier success.
	remint func() *c12Code
}

type c12Case struct {
	Caller     string `json:"caller_client"`
	Secret     string `json:"secret"`
	VerifierK  string `json:"verifier"`
	Code       string `json:"code"`
	RedirectK  string `json:"redirect"`
	Placement  string `json:"placement"`
	Status     int    `json:"status"`
	MayRelease bool   `json:"may_release_by_oracle"`
	Note       string `json:"note,omitempty"`
}

func c12S256(v string) string {
	s := sha256.Sum256([]byte(v))
	return base64.RawURLEncoding.EncodeToString(s[:])
}

func TestVerifC12(t *testing.T) {
	rep := newVerifReport("C12", "full corner product: caller client (secret clients A,B,X-with-special-characters; secret-less P,Q) x secret right/wrong/absent/other-client's x verifier right/wrong/absent x code (fresh with S256 challenge, fresh with default-method challenge, fresh without challenge, issued to the other client, re-signed copies expired 2 s .. 17 h ago, payload-tampered, foreign-key re-signed, other users) x redirect same/different x credentials in header (also URL-encoded) or form; codes come from the real authorize endpoint with two logged-in users; released tokens are decoded (iss, aud, sub, nonce, exp, JWKS signature) and the access token is taken to userinfo; class = (caller kind, secret, verifier, code kind, redirect, placement, outcome)")
	defer rep.Finish()
	clients := []c12Client{{"client-a", "secret-a"}, {"client-b", "secret-b"}, {"cl ient+x&y", "se cret%+/="}, {"pkce-p", ""}, {"pkce-q", ""},
		// a secret with characters a configuration loader might be tempted to interpret (environment references)
		{"client-d", "s3cr3t$Key-${HOME}-$1-for-d"}}
	var y strings.Builder
	y.WriteString("openid_connect_idp:\n    default_email_domain: \"mail.verif.test\"\n    clients:\n")
	for _, c := range clients {
		fmt.Fprintf(&y, "        - client_id: %q\n          client_secret: %q\n          allowed_redirect_domains: [\"example.com\"]\n", c.ID, c.Secret)
	}
	env, err := verifNewEnv(verifStateOpts{Name: "c12", Users: map[string]string{"alice": "alice-pw", "bob": "bob-pw"},
		AllowedWebUI: []string{"password"}, ExtraTop: y.String()})
	if err != nil {
		t.Fatal(err)
	}
	ca := verifSigner("ca_rsa2048")
	sess := map[string]string{}
	for _, u := range []string{"alice", "bob"} {
		ck, _ := verifLogin(env, u, u+"-pw")
		if ck == "" {
			t.Fatal("login failed")
		}
		sess[u] = ck
	}
	// JWKS as served
	var jwks jose.JSONWebKeySet
	{
		r := env.Do(verifReq{Path: "/idp/oauth2/jwks"}.Build())
		if r.Code != 200 || json.Unmarshal(r.Body, &jwks) != nil || len(jwks.Keys) == 0 {
			t.Fatalf("jwks: %d", r.Code)
		}
	}
	var jwksKeys []crypto.PublicKey
	for _, k := range jwks.Keys {
		jwksKeys = append(jwksKeys, k.Key)
	}
	authorize := func(name, client, user, redirect, nonce, challenge, method string) *c12Code {
		qs := url.Values{"response_type": {"code"}, "client_id": {client}, "scope": {"openid"},
			"redirect_uri": {redirect}, "state": {"st"}, "nonce": {nonce}}
		if challenge != "" {
			qs.Set("code_challenge", challenge)
		}
		if method != "" {
			qs.Set("code_challenge_method", method)
		}
		r := env.Do(verifReq{Path: "/idp/oauth2/authorize?" + qs.Encode(), Cookies: verifCk(sess[user])}.Build())
		after := time.Now()
		rep.Eval(fmt.Sprintf("authorize|%s|method=%s|%d", client, method, r.Code))
		if r.Code != 302 {
			rep.Count("authorize_refused", 1)
			return nil
		}
		lu, err := url.Parse(r.Header.Get("Location"))
		if err != nil || lu.Query().Get("code") == "" {
			return nil
		}
		rep.Count("authorize_ok", 1)
		// the code has to be presented "before it expires": a real code's window is minutes (the implementation says 5;
		// RFC 6749 recommends at most 10), counted from the authorization
		if _, pl, _, ok := verifSplitJWS(lu.Query().Get("code")); ok {
			var cl verifClaims
			if json.Unmarshal(pl, &cl) == nil {
				exp := verifClaimInt(cl, "exp")
				rep.Count("code_lifetimes_checked", 1)
				if exp == 0 || exp > after.Unix()+600 {
					rep.Violate("C12/code-lifetime-unbounded", fmt.Sprintf("an authorization code minted now expires %d s after the authorization (exp=%d)", exp-after.Unix(), exp), map[string]interface{}{"client": client, "exp": exp, "authorized_at": after.Unix()})
				}
			}
		}
		return &c12Code{Name: name, Code: lu.Query().Get("code"), Client: client, User: user, Redirect: redirect,
			Nonce: nonce, Challenge: challenge, Method: method, Valid: true, AuthAfter: after}
	}
	const redir = "https://app.example.com/cb"
	const verifierGood = "verifier-0123456789-abcdefghijklmnopqrstuvwxyz-ABCDEFG"
	var codes []*c12Code
	add := func(c *c12Code) {
		if c != nil {
			codes = append(codes, c)
		}
	}
	mk := func(name, client, user, redirect, nonce, challenge, method, verifier string) *c12Code {
		c := authorize(name, client, user, redirect, nonce, challenge, method)
		if c == nil {
			return nil
		}
		c.Verifier = verifier
		c.remint = func() *c12Code {
			n := authorize(name, client, user, redirect, nonce, challenge, method)
			if n != nil {
				n.Verifier = verifier
			}
			return n
		}
		return c
	}
	for _, cl := range clients {
		add(mk("fresh-nochallenge:"+cl.ID, cl.ID, "alice", redir, "nonce-"+cl.ID, "", "", ""))
		add(mk("fresh-S256:"+cl.ID, cl.ID, "bob", redir, "nonce2-"+cl.ID, c12S256(verifierGood), "S256", verifierGood))
		add(mk("fresh-defaultmethod:"+cl.ID, cl.ID, "alice", redir, "nonce3-"+cl.ID, verifierGood, "", verifierGood))
		// methods the server must not silently weaken
		for _, m := range []string{"plain", "S512", "none"} {
			add(mk("fresh-"+m+":"+cl.ID, cl.ID, "alice", redir, "nonce4-"+cl.ID, verifierGood, m, verifierGood))
		}
	}
	// derived invalid codes
	var derived []*c12Code
	for _, c := range codes {
		if !strings.HasPrefix(c.Name, "fresh-S256") && !strings.HasPrefix(c.Name, "fresh-nochallenge") {
			continue
		}
		_, p, _, ok := verifSplitJWS(c.Code)
		if !ok {
			continue
		}
		var claims verifClaims
		json.Unmarshal(p, &claims)
		// expired copies at several ages: a code is dead from the second after its expiry, not a grace period later
		// (monotone: by the time a copy is presented it is only older)
		for _, age := range []time.Duration{2 * time.Second, 25 * time.Second, 55 * time.Second, 90 * time.Second, 10 * time.Minute, 17 * time.Hour} {
			exp := claims.clone()
			exp["exp"] = time.Now().Add(-age).Unix()
			exp["iat"] = time.Now().Add(-age - 5*time.Minute).Unix()
			if _, has := exp["nbf"]; has {
				exp["nbf"] = exp["iat"]
			}
			d := *c
			d.remint = nil
			d.Name, d.Code, d.Valid = fmt.Sprintf("expired-%s:%s", age, c.Client), verifMint(exp, ca), false
			derived = append(derived, &d)
		}
		d2 := *c
		d2.remint = nil
		d2.Name, d2.Code, d2.Valid = "foreignkey:"+c.Client, verifMint(claims, verifSigner("foreign_rsa2048")), false
		derived = append(derived, &d2)
		h, pp, s, _ := verifSplitJWS(c.Code)
		p2 := []byte(strings.Replace(string(pp), `"username":"`+c.User+`"`, `"username":"root"`, 1))
		d3 := *c
		d3.remint = nil
		d3.Name, d3.Code, d3.Valid = "tampered-username:"+c.Client, verifJoinJWS(h, p2, s), false
		derived = append(derived, &d3)
		d4 := *c
		d4.remint = nil
		d4.Name, d4.Code, d4.Valid = "alg-none:"+c.Client, verifMintNone(claims), false
		derived = append(derived, &d4)
		// a session cookie is not an authorization code
		d5 := *c
		d5.remint = nil
		d5.Name, d5.Code, d5.Valid = "session-cookie-as-code:"+c.Client, sess[c.User], false
		derived = append(derived, &d5)
	}
	codes = append(codes, derived...)
	secretOf := map[string]string{}
	for _, c := range clients {
		secretOf[c.ID] = c.Secret
	}
	type sec struct{ name, val string }
	type ver struct{ name, val string }
	for _, caller := range clients {
		other := "secret-b"
		if caller.ID == "client-b" {
			other = "secret-a"
		}
		secrets := []sec{{"right", caller.Secret}, {"wrong", caller.Secret + "x"}, {"absent", ""}, {"other-clients", other}}
		if caller.Secret == "" {
			// (blank values: a secret-less client has no secret to match - white space is not "the empty secret")
			secrets = []sec{{"absent", ""}, {"wrong", "guess"}, {"other-clients", "secret-a"}, {"one-space", " "}, {"newline", "\n"}, {"tab-space", "\t "}}
		} else {
			secrets = append(secrets, sec{"right-then-space", caller.Secret + " "}, sec{"space-then-right", " " + caller.Secret}, sec{"right-then-newline", caller.Secret + "\n"})
		}
		if ex := os.ExpandEnv(caller.Secret); ex != caller.Secret {
			secrets = append(secrets, sec{"environment-expanded", ex}, sec{"dollar-words-removed", os.Expand(caller.Secret, func(string) string { return "" })})
		}
		for _, code := range codes {
			vers := []ver{{"absent", ""}, {"wrong", "not-the-verifier-0123456789012345678901234567890"}}
			if code.Verifier != "" {
				vers = append(vers, ver{"right", code.Verifier})
				if code.Method == "S256" {
					vers = append(vers, ver{"challenge-itself", code.Challenge})
				}
			}
			for _, s := range secrets {
				for _, v := range vers {
					for _, rk := range []string{"same", "different", "different-case"} {
						for _, placement := range []string{"form", "header", "header-urlencoded", "header+body-names-codes-client"} {
							if !verifThorough() && (rk != "same" || placement == "header-urlencoded") && (len(code.Name)+len(s.name)+len(v.name))%3 != 0 {
								continue
							}
							red := code.Redirect
							if rk == "different" {
								red = "https://other.example.com/cb"
							} else if rk == "different-case" {
								red = "https://app.example.com/CB"
							}
							f := url.Values{"grant_type": {"authorization_code"}, "code": {code.Code}, "redirect_uri": {red}}
							if v.val != "" {
								f.Set("code_verifier", v.val)
							}
							q := verifReq{Method: "POST", Path: "/idp/oauth2/token", Form: f}
							switch placement {
							case "form":
								f.Set("client_id", caller.ID)
								if s.val != "" {
									f.Set("client_secret", s.val)
								}
							case "header":
								if strings.ContainsAny(caller.ID+s.val, " +%&/=") {
									continue // raw header form is ambiguous for these; covered by header-urlencoded
								}
								q.UseBasic, q.BasicUser, q.BasicPass = true, caller.ID, s.val
							case "header-urlencoded":
								q.UseBasic, q.BasicUser, q.BasicPass = true, url.QueryEscape(caller.ID), url.QueryEscape(s.val)
							case "header+body-names-codes-client":
								// the caller authenticates in the header; the body's client_id names the client the code was issued to
								if strings.ContainsAny(caller.ID+s.val, " +%&/=") || code.Client == caller.ID {
									continue
								}
								q.UseBasic, q.BasicUser, q.BasicPass = true, caller.ID, s.val
								f.Set("client_id", code.Client)
							}
							resp := env.Do(q.Build())
							released := resp.Code == 200 && strings.Contains(string(resp.Body), "id_token")
							// oracle
							clientOK := false
							if caller.Secret != "" {
								clientOK = s.val == caller.Secret
							} else if code.Challenge != "" && v.val != "" {
								switch code.Method {
								case "S256":
									clientOK = c12S256(v.val) == code.Challenge
								case "", "plain":
									clientOK = v.val == code.Challenge
								}
							}
							may := clientOK && code.Valid && code.Client == caller.ID && rk == "same"
							kind := "secret-client"
							if caller.Secret == "" {
								kind = "pkce-client"
							}
							codeKind := strings.SplitN(code.Name, ":", 2)[0]
							if code.Client != caller.ID {
								codeKind += "(other-client)"
							}
							cs := c12Case{Caller: caller.ID, Secret: s.name, VerifierK: v.name, Code: code.Name, RedirectK: rk,
								Placement: placement, Status: resp.Code, MayRelease: may}
							rep.Eval(fmt.Sprintf("%s|sec=%s|ver=%s|%s|red=%s|%s|released=%v", kind, s.name, v.name, codeKind, rk, placement, released))
							if resp.Panic != "" {
								rep.Violate("C12/panic", "token endpoint panicked", cs)
								continue
							}
							if released && !may {
								why := "client-not-proven"
								switch {
								case !code.Valid:
									why = "invalid-code:" + codeKind
								case code.Client != caller.ID:
									why = "code-of-other-client"
								case rk != "same":
									why = "redirect-differs"
								}
								cs.Note = "tokens released although " + why
								rep.Violate("C12/released/"+why+"/"+kind+"/sec="+s.name+"/ver="+v.name, cs.Note, cs)
								continue
							}
							if !released {
								rep.Count("refused", 1)
								if len(verifSignedMaterial(resp)) > 0 {
									rep.Violate("C12/signed-material-in-refusal", "signed material in a refused token request", cs)
								}
								// canonical happy paths must work
								canonical := may && ((caller.Secret != "" && v.val == "") || (caller.Secret == "" && s.val == ""))
								if canonical {
									cs.Note = "canonical request of the right client was refused"
									rep.Violate("C12/happy-path-refused/"+kind+"/"+codeKind+"/"+placement, cs.Note, cs)
								}
								continue
							}
							rep.Count("released", 1)
							rep.Count("released_"+kind, 1)
							redeemed := code.Code
							// decode the tokens
							var tr struct {
								AccessToken string `json:"access_token"`
								IDToken     string `json:"id_token"`
								TokenType   string `json:"token_type"`
							}
							if err := json.Unmarshal(resp.Body, &tr); err != nil {
								rep.Violate("C12/bad-token-response", err.Error(), cs)
								continue
							}
							idc, ok := verifVerifyJWS(tr.IDToken, jwksKeys)
							var bad []string
							if !ok {
								bad = append(bad, "id_token does not verify under the served JWKS")
							} else {
								if verifClaimStr(idc, "iss") != verifIssuer {
									bad = append(bad, "iss="+verifClaimStr(idc, "iss"))
								}
								if verifClaimStr(idc, "sub") != code.User {
									bad = append(bad, "sub="+verifClaimStr(idc, "sub")+" want "+code.User)
								}
								aud, _ := idc["aud"].([]interface{})
								if len(aud) != 1 || fmt.Sprint(aud[0]) != caller.ID {
									bad = append(bad, fmt.Sprintf("aud=%v want [%s]", idc["aud"], caller.ID))
								}
								if verifClaimStr(idc, "nonce") != code.Nonce {
									bad = append(bad, "nonce="+verifClaimStr(idc, "nonce"))
								}
								if exp := verifClaimInt(idc, "exp"); exp > code.AuthAfter.Add(16*time.Hour).Unix()+1 {
									bad = append(bad, fmt.Sprintf("exp %d later than authorization+16h", exp))
								}
							}
							// userinfo with the access token
							ui := env.Do(verifReq{Path: "/idp/oauth2/userinfo", Header: map[string]string{"Authorization": "Bearer " + tr.AccessToken}}.Build())
							var info map[string]interface{}
							json.Unmarshal(ui.Body, &info)
							if ui.Code != 200 || fmt.Sprint(info["sub"]) != code.User || fmt.Sprint(info["username"]) != code.User {
								bad = append(bad, fmt.Sprintf("userinfo(access token) = %d sub=%v", ui.Code, info["sub"]))
							}
							// and nothing else does
							for nm, tk := range map[string]string{"id_token": tr.IDToken, "code": redeemed, "session-cookie": sess[code.User]} {
								r2 := env.Do(verifReq{Path: "/idp/oauth2/userinfo", Header: map[string]string{"Authorization": "Bearer " + tk}}.Build())
								rep.Eval("userinfo-with-" + nm + fmt.Sprintf("|%d", r2.Code/100))
								if r2.Code == 200 {
									bad = append(bad, "userinfo accepted a "+nm)
								}
							}
							if len(bad) > 0 {
								cs.Note = strings.Join(bad, "; ")
								rep.Violate("C12/bad-tokens/"+firstWord(bad[0]), cs.Note, cs)
							} else {
								rep.Count("tokens_decoded_ok", 1)
								rep.Sample("released:"+kind+":"+placement, 1, cs)
							}
							if code.remint != nil {
								if n := code.remint(); n != nil {
									code.Code, code.AuthAfter = n.Code, n.AuthAfter
									rep.Count("codes_reminted_after_redemption", 1)
								}
							}
						}
					}
				}
			}
		}
	}
	// form placement of the access token at userinfo
	rep.Floor("released_secret-client", 6)
	rep.Floor("released_pkce-client", 4)
	rep.Floor("tokens_decoded_ok", 10)
	rep.Floor("refused", 500)
	rep.Floor("code_lifetimes_checked", 5)
	rep.Assume("'before it expires': a real authorization code must expire within 10 minutes of the authorization (RFC 6749 4.1.2; the implementation's constant is 5 minutes)")
	rep.Extra["codes"] = len(codes)
}
