package main

// C08 - users manage only themselves; administration needs admin rights (+U2F).
//
// Oracle table over (actor role, actor session level, target, operation, token
// index).  forbidden => status >= 400, every stored profile byte-identical, no
// data of the target in the response.  allowed => success and exactly the
// intended change.  The 5-minute admin memo is driven with virtual time.

import (
	"database/sql"
	"fmt"
	"net/url"
	"os"
	"path/filepath"
	"reflect"
	"strings"
	"testing"
	"time"
)

type c08Actor struct {
	Name      string
	Admin     bool
	AutoAdmin bool
}

type c08Case struct {
	Actor   string `json:"actor"`
	Level   string `json:"level"`
	Target  string `json:"target"`
	Op      string `json:"operation"`
	Index   string `json:"index"`
	Allowed bool   `json:"allowed_by_oracle"`
	Status  int    `json:"status"`
	Note    string `json:"note,omitempty"`
}

func c08Snapshot(db *sql.DB) map[string][]byte {
	out := map[string][]byte{}
	rows, err := db.Query("select username, profile_data from user_profile")
	if err != nil {
		return out
	}
	defer rows.Close()
	for rows.Next() {
		var u string
		var b []byte
		rows.Scan(&u, &b)
		out[u] = b
	}
	return out
}

func c08Restore(db *sql.DB, snap map[string][]byte) {
	db.Exec("delete from user_profile")
	for u, b := range snap {
		db.Exec("insert or replace into user_profile(username, profile_data) values(?,?)", u, b)
	}
}

func TestVerifC08(t *testing.T) {
	rep := newVerifReport("C08", "full matrix actor role (plain, admin by name, admin by directory group, automation admin) x session level (password, password+U2F) x target (self, other existing, other missing, own name in another case) x operation (U2F/TOTP token Update/Enable/Disable/Delete, register begin/finish for self/other, TOTP generate, profile view, users list/add/delete, bootstrap-OTP issue, automation-certificate mint for configured/unconfigured identity) x token index (target's valid, actor's, missing, negative); forbidden => >=400, all stored profiles byte-identical, no target data in response; allowed => the intended change only; admin memo re-evaluation with virtual time; automation admin alternating mint and administrator-only requests inside and across memo lifetimes; class = (role, level, target relation, operation, index kind, verdict)")
	defer rep.Finish()
	dir := newVerifDirectory(1)
	for _, u := range []string{"alice", "bob", "root1", "grpadmin", "autoadm"} {
		dir.SetPassword(u, "x")
	}
	dir.SetGroups("grpadmin", []string{"km-admins", "staff"})
	dir.SetGroups("alice", []string{"staff"})
	users := map[string]string{"alice": "pw-alice", "bob": "pw-bob", "root1": "pw-root1", "grpadmin": "pw-grpadmin", "autoadm": "pw-autoadm"}
	env, err := verifNewEnv(verifStateOpts{Name: "c08", Users: users, AllowedCerts: []string{"U2F"}, AllowedWebUI: []string{"password"},
		AdminUsers: []string{"root1"}, AdminGroups: []string{"km-admins"}, AutomationUsers: []string{"autobot"}, AutomationAdmins: []string{"autoadm"},
		EnableTOTP: true, EnableBootstrap: true, ExtraTop: dir.UserInfoYAML()})
	if err != nil {
		t.Fatal(err)
	}
	ca := verifSigner("ca_rsa2048")
	// real enrolments for alice and bob (one U2F + one TOTP each) with canary names
	tokens := map[string]*verifU2FToken{}
	for _, u := range []string{"alice", "bob"} {
		ck, _ := verifLogin(env, u, users[u])
		if ck == "" {
			t.Fatal("login failed for " + u)
		}
		tokens[u] = newVerifU2FToken()
		if err := verifEnrollU2F(env, ck, u, tokens[u]); err != nil {
			t.Fatal(err)
		}
		if _, err := verifEnrollTOTP(env, ck); err != nil {
			t.Fatal(err)
		}
		if _, ok := verifRenameTOTP(env, ck, u, "CANARY-"+u+"-4242"); !ok {
			t.Fatal("cannot name token of " + u)
		}
	}
	idxOf := func(user, kind string) int64 {
		v := env.ProfileView(user)
		m := v.U2F
		if kind == "totp" {
			m = v.TOTP
		}
		for i := range m {
			return i
		}
		return 0
	}
	snap := c08Snapshot(env.DB())
	actors := []c08Actor{{"alice", false, false}, {"root1", true, true}, {"grpadmin", true, true}, {"autoadm", false, true}}
	levels := map[string]int{"password": verifBit["password"], "password+U2F": verifBit["password"] | verifBit["U2F"]}
	cookie := func(actor string, bits int) string {
		return verifMint(verifSessionClaims(actor, bits, time.Now().Add(-time.Minute), 16*time.Hour), ca)
	}
	canaries := map[string]string{"alice": "CANARY-alice-4242", "bob": "CANARY-bob-4242"}
	seq := 0
	run := func(actor c08Actor, levelName string, target, op, idxKind string, allowed bool, q verifReq, verify func(before, after verifProfileView) string) {
		c08Restore(env.DB(), snap)
		bits := levels[levelName]
		q.Cookies = verifCk(cookie(actor.Name, bits))
		beforeAll := c04DBDigest(env.DB())
		beforeT := env.ProfileView(target)
		resp := env.Do(q.Build())
		afterT := env.ProfileView(target)
		afterAll := c04DBDigest(env.DB())
		cs := c08Case{Actor: actor.Name, Level: levelName, Target: target, Op: op, Index: idxKind, Allowed: allowed, Status: resp.Code}
		rel := "self"
		if target != actor.Name {
			rel = "other"
			if target == "ghost" {
				rel = "missing"
			} else if strings.EqualFold(target, actor.Name) {
				rel = "case-variant-of-self"
			}
		}
		role := "plain"
		switch {
		case actor.Name == "root1":
			role = "admin-by-name"
		case actor.Name == "grpadmin":
			role = "admin-by-group"
		case actor.Name == "autoadm":
			role = "automation-admin"
		}
		ok := resp.Code < 400
		rep.Eval(fmt.Sprintf("%s|%s|%s|%s|%s|allowed=%v|ok=%v", role, levelName, rel, op, idxKind, allowed, ok))
		if resp.Panic != "" {
			rep.Obs("panic in %s by %s on %s: %s", op, actor.Name, target, firstLines(resp.Panic, 1))
		}
		if !allowed {
			rep.Count("forbidden_cells", 1)
			var bad []string
			if ok {
				bad = append(bad, fmt.Sprintf("answered %d", resp.Code))
			}
			if afterAll != beforeAll {
				bad = append(bad, "stored profiles changed")
			}
			if target != actor.Name {
				if cn, has := canaries[target]; has && strings.Contains(string(resp.Body), cn) {
					bad = append(bad, "target's profile data in the response")
				}
			}
			if len(bad) > 0 {
				cs.Note = strings.Join(bad, "; ")
				rep.Violate(fmt.Sprintf("C08/forbidden-but-effective/%s/%s/%s/%s", op, role, levelName, rel), cs.Note, cs)
			} else {
				rep.Sample("forbidden:"+op+":"+role, 1, cs)
			}
			return
		}
		rep.Count("allowed_cells", 1)
		if !ok && afterAll == beforeAll && (op == "delete-user" || strings.HasPrefix(op, "bootstrap-otp-issue")) && (rel == "self" || rel == "case-variant-of-self") {
			// an administrator removing or re-bootstrapping their own account: the statement says who may act on users,
			// it does not promise that administrators may do this to themselves - a refusal without effect is within it
			rep.Count("admin_operation_on_own_account_refused", 1)
			rep.Sample("refused-on-own-account:"+op, 1, cs)
			return
		}
		if verify == nil {
			if !ok {
				cs.Note = "an allowed operation was refused"
				rep.Violate(fmt.Sprintf("C08/allowed-but-refused/%s/%s/%s/%s", op, role, levelName, rel), cs.Note, cs)
			} else {
				rep.Sample("allowed:"+op+":"+role, 1, cs)
			}
			return
		}
		if msg := verify(beforeT, afterT); msg != "" {
			cs.Note = msg
			rep.Violate(fmt.Sprintf("C08/wrong-effect/%s/%s/%s", op, role, rel), msg, cs)
		} else if !ok && !strings.HasPrefix(idxKind, "invalid") {
			cs.Note = "an allowed operation was refused"
			rep.Violate(fmt.Sprintf("C08/allowed-but-refused/%s/%s/%s/%s", op, role, levelName, rel), cs.Note, cs)
		} else {
			rep.Sample("allowed:"+op+":"+role, 1, cs)
		}
		// nobody else's profile may change
		now := c08Snapshot(env.DB())
		for u, b := range snap {
			if u != target && u != actor.Name && string(now[u]) != string(b) {
				rep.Violate("C08/collateral-change/"+op, "profile of "+u+" changed by an operation on "+target, cs)
			}
		}
	}
	for _, actor := range actors {
		for levelName, bits := range levels {
			hasU2F := bits&verifBit["U2F"] != 0
			// (the last target differs from the actor's own name by case only: another account as far as the store is concerned)
			for _, target := range []string{actor.Name, "bob", "ghost", strings.ToUpper(actor.Name[:1]) + actor.Name[1:]} {
				if target == actor.Name && actor.Name != "alice" && actor.Name != "root1" {
					continue // these actors own no tokens; self cells are covered by alice/root1
				}
				self := target == actor.Name
				mayManage := self || (actor.Admin && hasU2F)
				for _, kind := range []string{"u2f", "totp"} {
					path := "/api/v0/manageU2FToken"
					if kind == "totp" {
						path = "/api/v0/manageTOTPToken"
					}
					idxKinds := map[string]int64{"targets-valid": idxOf(target, kind), "invalid-missing": 12345, "invalid-negative": -1}
					if !self {
						idxKinds["invalid-actors-own"] = idxOf("alice", kind) + 7 // an index valid elsewhere, not in the target
					}
					for _, action := range []string{"Update", "Enable", "Disable", "Delete"} {
						for ik, idx := range idxKinds {
							if ik == "targets-valid" && idx == 0 {
								continue
							}
							seq++
							newName := fmt.Sprintf("renamed %d", seq)
							q := verifReq{Method: "POST", Path: path, Form: url.Values{"username": {target}, "index": {fmt.Sprint(idx)},
								"action": {action}, "name": {newName}}}
							valid := ik == "targets-valid"
							kindC, actionC, idxC := kind, action, idx
							run(actor, levelName, target, kind+"-manage-"+action, ik, mayManage, q, func(b, a verifProfileView) string {
								bm, am := b.U2F, a.U2F
								if kindC == "totp" {
									bm, am = b.TOTP, a.TOTP
								}
								want := map[int64]verifTokView{}
								for i, tk := range bm {
									want[i] = tk
								}
								if valid {
									tk := want[idxC]
									switch actionC {
									case "Update":
										tk.Name = newName
										want[idxC] = tk
									case "Enable":
										tk.Enabled = true
										want[idxC] = tk
									case "Disable":
										tk.Enabled = false
										want[idxC] = tk
									case "Delete":
										delete(want, idxC)
									}
								}
								if !reflect.DeepEqual(want, am) {
									return fmt.Sprintf("tokens after %s = %v, expected %v", actionC, am, want)
								}
								// the other token family is untouched
								if kindC == "totp" && !reflect.DeepEqual(b.U2F, a.U2F) || kindC == "u2f" && !reflect.DeepEqual(b.TOTP, a.TOTP) {
									return "the other token family changed"
								}
								return ""
							})
						}
					}
				}
				// registration begin / finish
				run(actor, levelName, target, "u2f-register-begin", "-", mayManage, verifReq{Method: "GET", Path: "/u2f/RegisterRequest/" + target}, nil)
				run(actor, levelName, target, "webauthn-register-begin", "-", mayManage, verifReq{Method: "GET", Path: "/webauthn/RegisterRequest/" + target}, nil)
				if !mayManage {
					body, _ := jsonMarshal(newVerifU2FToken().RegisterResponse(verifIssuer, "AAAA"))
					run(actor, levelName, target, "u2f-register-finish", "-", false, verifReq{Method: "POST", Path: "/u2f/RegisterResponse/" + target, RawBody: body, RawCT: "application/json"}, nil)
					run(actor, levelName, target, "webauthn-register-finish", "-", false, verifReq{Method: "POST", Path: "/webauthn/RegisterFinish/" + target, RawBody: []byte(`{"id":"AAAA","rawId":"AAAA","type":"public-key","response":{"attestationObject":"AAAA","clientDataJSON":"e30"}}`), RawCT: "application/json"}, nil)
				}
				// profile view
				if !self {
					run(actor, levelName, target, "profile-view", "-", actor.Admin, verifReq{Method: "GET", Path: "/profile/" + target, Header: map[string]string{"Accept": "text/html"}}, nil)
				}
				// user administration aimed at the target
				if !self {
					run(actor, levelName, target, "delete-user", "-", actor.Admin, verifReq{Method: "POST", Path: "/admin/deleteUser", Form: url.Values{"username": {target}}}, nil)
					if target == "ghost" {
						run(actor, levelName, "newuser", "add-user", "-", actor.Admin, verifReq{Method: "POST", Path: "/admin/addUser", Form: url.Values{"username": {"newuser"}}}, nil)
					}
				}
			}
			run(actor, levelName, "bob", "bootstrap-otp-issue-for-user-with-tokens", "-", false, verifReq{Method: "POST", Path: "/admin/newBoostrapOTP", Form: url.Values{"username": {"bob"}}},
				func(b, a verifProfileView) string { return "" })
			run(actor, levelName, actor.Name, "users-list", "-", actor.Admin, verifReq{Method: "GET", Path: "/users/"}, nil)
			// self-service TOTP generation always concerns the actor itself
			run(actor, levelName, actor.Name, "totp-generate", "-", true, verifReq{Method: "POST", Path: "/totp/GenerateNew/"}, nil)
			// automation certificate mint
			for _, ident := range []string{"autobot", "alice"} {
				q := verifRoleMintReq(ident, verifUserECKey().Public(), []string{"10.0.0.0/8"}, []string{"10.0.0.0/8"}, nil)
				run(actor, levelName, ident, "role-mint-"+map[bool]string{true: "configured", false: "unconfigured"}[ident == "autobot"], "-", actor.AutoAdmin && ident == "autobot", q, nil)
			}
		}
	}
	// automation certificates while the user / group directory does not answer or errors: an identity that is not a
	// configured automation user must not be minted on the strength of a failed lookup
	for _, mode := range []string{"down", "error"} {
		dir.SetAll(mode)
		for _, actor := range actors {
			if !actor.AutoAdmin {
				continue
			}
			for _, ident := range []string{"alice", "root1", "no-such-role", "autobot"} {
				q := verifRoleMintReq(ident, verifUserECKey().Public(), []string{"10.0.0.0/8"}, []string{"10.0.0.0/8"}, nil)
				run(actor, "password+U2F", ident, "role-mint-"+map[bool]string{true: "configured", false: "unconfigured"}[ident == "autobot"]+"(directory-"+mode+")", "-", ident == "autobot", q, nil)
			}
		}
	}
	dir.SetAll("up")
	// bootstrap OTP issue for a user without tokens: admin only
	c08Restore(env.DB(), snap)
	{
		rootCk := cookie("root1", levels["password"])
		if r := verifAdminAddUser(env, rootCk, "carol"); r.Code != 200 {
			rep.Inconc("cannot add carol: %d", r.Code)
		}
		snap2 := c08Snapshot(env.DB())
		for _, actor := range actors {
			for levelName := range levels {
				saved := snap
				snap = snap2
				run(actor, levelName, "carol", "bootstrap-otp-issue", "-", actor.Admin,
					verifReq{Method: "POST", Path: "/admin/newBoostrapOTP", Form: url.Values{"username": {"carol"}}},
					func(b, a verifProfileView) string {
						if !a.BootstrapOTP {
							return "no bootstrap OTP stored for the target"
						}
						return ""
					})
				snap = saved
			}
		}
	}
	// ---- admin memo: membership removed in the directory, virtual time
	clk, maxDur, err := env.InstallAdminClock()
	if err != nil {
		rep.Inconc("admin memo clock: %v", err)
	} else {
		rep.Extra["admin_memo_duration_s"] = maxDur.Seconds()
		if maxDur > 5*time.Minute {
			rep.Violate("C08/admin-memo-longer-than-5-minutes", fmt.Sprintf("admin verdicts are memoised for %s", maxDur), nil)
		}
		usersAs := func(user string) int {
			return env.Do(verifReq{Method: "GET", Path: "/users/", Cookies: verifCk(cookie(user, levels["password"]))}.Build()).Code
		}
		probe := func(label string, user string, want int, unspecified bool) {
			got := usersAs(user)
			rep.Eval(fmt.Sprintf("admin-memo|%s|%d", label, got))
			rep.Count("admin_memo_probes", 1)
			if !unspecified && (got == 200) != (want == 200) {
				rep.Violate("C08/admin-memo/"+label, fmt.Sprintf("GET /users/ as %s answered %d, expected %s", user, got, map[bool]string{true: "admin access", false: "refusal"}[want == 200]),
					map[string]interface{}{"label": label, "status": got})
			}
		}
		probe("member-initially", "grpadmin", 200, false)
		dir.SetGroups("grpadmin", []string{"staff"})
		clk.Advance(4*time.Minute + 59*time.Second)
		probe("removed,+4m59s(may persist)", "grpadmin", 200, true)
		clk.Advance(2 * time.Second)
		probe("removed,+5m01s,directory-answers", "grpadmin", 401, false)
		// still not a member and the directory starts failing: the last real answer was "not an administrator"; an error
		// must not bring the older, expired "administrator" verdict back
		dir.SetAll("error")
		clk.Advance(6 * time.Minute)
		probe("removed,directory-erroring-after-it-said-no", "grpadmin", 401, false)
		clk.Advance(6 * time.Minute)
		probe("removed,directory-still-erroring", "grpadmin", 401, false)
		dir.SetAll("up")
		clk.Advance(6 * time.Minute)
		probe("removed,directory-back", "grpadmin", 401, false)
		// gains membership again; directory erroring: previous verdict (not admin) is kept
		dir.SetGroups("grpadmin", []string{"km-admins"})
		dir.SetAll("error")
		clk.Advance(6 * time.Minute)
		probe("regained,directory-erroring(previous verdict kept)", "grpadmin", 401, true)
		dir.SetAll("up")
		clk.Advance(6 * time.Minute)
		probe("regained,+6m,directory-answers", "grpadmin", 200, false)
		// non member never becomes admin, by-name admin never depends on the directory
		probe("plain-user", "alice", 401, false)
		dir.SetAll("down")
		clk.Advance(6 * time.Minute)
		probe("admin-by-name,directory-down", "root1", 200, false)
		dir.SetAll("up")
		// two requests of a demoted administrator in flight after the memo expired, the directory answering slowly: the
		// second must not be served from the expired verdict while the first is still asking
		dir.SetGroups("grpadmin", []string{"km-admins"})
		clk.Advance(6 * time.Minute)
		probe("member-again", "grpadmin", 200, false)
		dir.SetGroups("grpadmin", []string{"staff"})
		clk.Advance(5*time.Minute + 2*time.Second)
		release := dir.Hold()
		r1, r2 := make(chan int, 1), make(chan int, 1)
		go func() { r1 <- usersAs("grpadmin") }()
		for i := 0; i < 100 && dir.Waiting() == 0; i++ {
			time.Sleep(20 * time.Millisecond)
		}
		parked := dir.Waiting()
		go func() { r2 <- usersAs("grpadmin") }()
		early := 0
		select {
		case early = <-r2:
		case <-time.After(1500 * time.Millisecond):
		}
		release()
		c1 := <-r1
		c2 := early
		if early == 0 {
			c2 = <-r2
		}
		rep.Eval(fmt.Sprintf("admin-memo|two-in-flight-after-expiry|first=%d|second=%d|second-before-directory-answered=%v", c1, c2, early != 0))
		rep.Count("admin_memo_probes", 1)
		if parked == 0 {
			rep.Obs("two-in-flight: the first request's directory lookup was not seen waiting (not judged)")
		} else if early == 200 || c1 == 200 || c2 == 200 {
			rep.Violate("C08/admin-memo/demoted-admin-served-while-refresh-in-flight", "after the memo lifetime a demoted administrator's second request was served as administrator while the first request's directory lookup was still in flight",
				map[string]interface{}{"first_status": c1, "second_status": c2, "second_answered_before_directory": early != 0})
		}
		// requests of different users whose memo entries have all expired, in flight together while the directory answers
		// slowly (or fails): whatever the administrator's own lookup returns, it is the administrator's verdict only -
		// a plain user asking at that moment is not an administrator
		for round, mode := range []string{"up", "up", "error", "up"} {
			dir.SetAll("up")
			dir.SetGroups("grpadmin", []string{"km-admins"})
			clk.Advance(6 * time.Minute)
			probe(fmt.Sprintf("cross-user-round-%d/member", round), "grpadmin", 200, false)
			clk.Advance(5*time.Minute + 2*time.Second) // every memo entry is now stale
			release := dir.Hold()
			plain := []string{"alice", "bob", fmt.Sprintf("visitor%d", round)}
			adminFirst := round != 1
			type answer struct {
				user string
				code int
			}
			answers := make(chan answer, 8)
			ask := func(user string) { go func() { answers <- answer{user, usersAs(user)} }() }
			waitParked := func(n int) bool {
				for i := 0; i < 150 && dir.Waiting() < n; i++ {
					time.Sleep(10 * time.Millisecond)
				}
				return dir.Waiting() >= n
			}
			var parked bool
			if adminFirst {
				ask("grpadmin")
				parked = waitParked(1)
				for _, u := range plain {
					ask(u)
				}
			} else {
				ask(plain[0])
				parked = waitParked(1)
				ask("grpadmin")
				for _, u := range plain[1:] {
					ask(u)
				}
			}
			// give the later requests time to reach the directory (or whatever they wait on), then let it answer
			time.Sleep(300 * time.Millisecond)
			inDirectory := dir.Waiting()
			dir.SetAll(mode) // "error": the lookups that are waiting fail when the directory finally answers
			release()
			got := map[string]int{}
			for i := 0; i < len(plain)+1; i++ {
				select {
				case a := <-answers:
					got[a.user] = a.code
				case <-time.After(60 * time.Second):
					rep.Inconc("cross-user admin lookups: a request did not return after the directory was released")
				}
			}
			dir.SetAll("up")
			rep.Eval(fmt.Sprintf("admin-memo|cross-user-in-flight|directory=%s|admin-first=%v|lookups-in-directory=%d|admin=%d", mode, adminFirst, inDirectory, got["grpadmin"]))
			rep.Count("admin_memo_probes", 1)
			if !parked {
				rep.Obs(fmt.Sprintf("cross-user in flight: the first lookup was not seen waiting in the directory (round %d not judged)", round))
				continue
			}
			rep.Count("admin_cross_user_rounds", 1)
			for _, u := range plain {
				if got[u] == 200 {
					rep.Violate("C08/admin-memo/plain-user-served-as-administrator-while-another-lookup-in-flight",
						fmt.Sprintf("GET /users/ as %s answered 200 while the administrator's directory lookup was in flight (directory %s, administrator asked first: %v)", u, mode, adminFirst),
						map[string]interface{}{"statuses": got, "directory": mode, "admin_first": adminFirst, "lookups_in_directory": inDirectory})
				}
			}
			if mode == "up" && got["grpadmin"] != 200 {
				rep.Obs(fmt.Sprintf("cross-user in flight: the administrator was answered %d while a plain user's lookup was in flight (admin asked first: %v; availability, not judged)", got["grpadmin"], adminFirst))
			}
		}
		// an automation admin may mint automation certificates and nothing else, in whichever order the two kinds of
		// request arrive within one memo lifetime and after it
		mintAs := func(user string) int {
			q := verifRoleMintReq("autobot", verifUserECKey().Public(), []string{"10.0.0.0/8"}, []string{"10.0.0.0/8"}, nil)
			q.Cookies = verifCk(cookie(user, levels["password+U2F"]))
			return env.Do(q.Build()).Code
		}
		adminOnly := []struct {
			name string
			q    verifReq
		}{
			{"users-list", verifReq{Method: "GET", Path: "/users/"}},
			{"add-user", verifReq{Method: "POST", Path: "/admin/addUser", Form: url.Values{"username": {"memo-new"}}}},
			{"delete-user", verifReq{Method: "POST", Path: "/admin/deleteUser", Form: url.Values{"username": {"bob"}}}},
			{"bootstrap-otp-issue", verifReq{Method: "POST", Path: "/admin/newBoostrapOTP", Form: url.Values{"username": {"bob"}}}},
			{"profile-of-other", verifReq{Method: "GET", Path: "/profile/bob"}},
		}
		for round, order := range []string{"mint-first", "admin-routes-first", "mint-first", "after-memo-expiry"} {
			clk.Advance(6 * time.Minute) // a fresh memo for every round
			before := c08Snapshot(env.DB())
			step := func(what string) {
				if what == "mint" {
					got := mintAs("autoadm")
					rep.Eval(fmt.Sprintf("automation-admin-sequence|%s|mint|%d", order, got))
					rep.Count("automation_admin_sequence_probes", 1)
					if got != 200 {
						rep.Violate("C08/automation-admin-sequence/mint-refused/"+order, "an automation admin was refused an automation certificate", map[string]interface{}{"order": order, "round": round, "status": got})
					}
					return
				}
				for _, a := range adminOnly {
					q := a.q
					q.Cookies = verifCk(cookie("autoadm", levels["password+U2F"]))
					got := env.Do(q.Build()).Code
					rep.Eval(fmt.Sprintf("automation-admin-sequence|%s|%s|%d", order, a.name, got/100))
					rep.Count("automation_admin_sequence_probes", 1)
					if got < 400 {
						rep.Violate("C08/automation-admin-sequence/admin-route-served/"+a.name+"/"+order, "an automation admin (not an administrator) was served an administrator-only operation",
							map[string]interface{}{"order": order, "round": round, "route": a.name, "status": got})
					}
				}
			}
			switch order {
			case "mint-first":
				step("mint")
				step("admin")
				step("mint")
			case "admin-routes-first":
				step("admin")
				step("mint")
				step("admin")
			default:
				step("mint")
				clk.Advance(5*time.Minute + time.Second)
				step("admin")
			}
			if after := c08Snapshot(env.DB()); !reflect.DeepEqual(before, after) {
				rep.Violate("C08/automation-admin-sequence/profiles-changed/"+order, "stored profiles changed during requests of an automation admin", map[string]interface{}{"order": order})
			}
		}
	}
	c08GitDB(rep)
	rep.Floor("automation_admin_sequence_probes", 20)
	rep.Floor("gitdb_memo_probes", 4)
	rep.Floor("forbidden_cells", 300)
	rep.Floor("allowed_cells", 100)
	rep.Floor("admin_memo_probes", 12)
	rep.Floor("admin_cross_user_rounds", 4)
}

// c08GitDB: administrators by group with the GitDB user-information source (a local repository directory the daemon
// watches).  An administrator removed from the admin group - also one left without any group at all - is demoted once
// the memo has expired and the source has picked the change up.
func c08GitDB(rep *verifReport) {
	repo, err := os.MkdirTemp(os.Getenv("VERIF_SCRATCH"), "gitdb-")
	if err != nil {
		rep.Inconc("gitdb: %v", err)
		return
	}
	write := func(groups string) {
		tmp := filepath.Join(repo, ".groups.tmp")
		os.WriteFile(tmp, []byte(groups), 0644)
		os.Rename(tmp, filepath.Join(repo, "groups.json"))
	}
	os.WriteFile(filepath.Join(repo, "permitted-groups.json"), []byte(`[".*"]`), 0644)
	write(`[{"Name": "km-admins", "UserMembers": ["gita", "gitc"]}, {"Name": "staff", "UserMembers": ["gitb", "gitc"]}]`)
	env, err := verifNewEnv(verifStateOpts{Name: "c08-gitdb", Users: map[string]string{"x": "y"}, AllowedCerts: []string{"password"}, AllowedWebUI: []string{"password"},
		AdminGroups: []string{"km-admins"},
		ExtraTop:    fmt.Sprintf("userinfo_sources:\n    gitdb:\n        local_repository_directory: %q\n        check_interval: 1s\n", repo)})
	if err != nil {
		rep.Inconc("gitdb deployment: %v", err)
		return
	}
	clk, _, err := env.InstallAdminClock()
	if err != nil {
		rep.Inconc("gitdb: admin memo clock: %v", err)
		return
	}
	ca := verifSigner("ca_rsa2048")
	usersAs := func(user string) int {
		ck := verifMint(verifSessionClaims(user, verifBit["password"]|verifBit["U2F"], time.Now().Add(-time.Minute), time.Hour), ca)
		return env.Do(verifReq{Method: "GET", Path: "/users/", Cookies: verifCk(ck)}.Build()).Code
	}
	waitGroups := func(user string, want int) bool {
		for i := 0; i < 150; i++ {
			if len(env.GitDBGroups(user)) == want {
				return true
			}
			time.Sleep(100 * time.Millisecond)
		}
		return false
	}
	if !waitGroups("gita", 1) || !waitGroups("gitc", 2) {
		rep.Inconc("gitdb: the source did not load the groups (gita=%v gitc=%v)", env.GitDBGroups("gita"), env.GitDBGroups("gitc"))
		return
	}
	probe := func(label, user string, want int) {
		got := usersAs(user)
		rep.Eval(fmt.Sprintf("gitdb-memo|%s|%d", label, got))
		rep.Count("gitdb_memo_probes", 1)
		if (got == 200) != (want == 200) {
			rep.Violate("C08/gitdb-memo/"+label, fmt.Sprintf("GET /users/ as %s answered %d, expected %s", user, got, map[bool]string{true: "admin access", false: "refusal"}[want == 200]),
				map[string]interface{}{"label": label, "status": got, "groups_in_source": env.GitDBGroups(user)})
		}
	}
	probe("member-initially", "gita", 200)
	probe("member-initially(control)", "gitc", 200)
	probe("non-member", "gitb", 401)
	// gita loses her only group, gitc keeps another one
	write(`[{"Name": "km-admins", "UserMembers": ["root"]}, {"Name": "staff", "UserMembers": ["gitb", "gitc"]}]`)
	if !waitGroups("gita", 0) || !waitGroups("gitc", 1) {
		rep.Inconc("gitdb: the source did not pick the change up within 15 s")
		return
	}
	clk.Advance(5*time.Minute + 2*time.Second)
	probe("removed-from-last-group,+5m02s", "gita", 401)
	probe("removed-from-admin-group,+5m02s(control)", "gitc", 401)
	clk.Advance(6 * time.Minute)
	probe("removed-from-last-group,+11m", "gita", 401)
}
