package main

// C07 - the directory's verdict on a password is final; the offline cache only
// fills outages.
//
// Real lib/pwauth/ldap authenticator + real signed store (primary and cache
// through the interposing driver) + fake LDAPS directory.  A model per user
// (directory password, what the stored record was made from, validity) gives
// the verdict for every login of bounded histories over
// {login cur/prev/wrong, directory up/down/erroring/first-down, change
// password, expire record, primary outage, synchronise, tamper}.

import (
	"database/sql"
	"encoding/json"
	"fmt"
	"net/url"
	"strings"
	"sync"
	"testing"
	"time"
)

type c07Row struct {
	PW     string // password the stored hash was made from ("" unknown)
	Owner  string // subject inside the signed record
	Bad    string // "" valid; else reason it must not be honoured
	ColExp bool   // unsigned column says expired
}

type c07Model struct {
	DirPW    map[string]string
	PrevPW   map[string]string
	Primary  map[string]*c07Row
	Cache    map[string]*c07Row
	DirUp    bool
	Outage   bool
	PWSerial int
	Disabled map[string]bool // accounts the directory refuses whatever the password (disabled, locked out, expired)
}

type c07Env struct {
	env    *verifEnv
	dir    *verifDirectory
	gate   *verifOutage
	side   *sql.DB // side connection to the primary file (not hooked)
	sideC  *sql.DB
	m      *c07Model
	trace  []string
	rep    *verifReport
	caName string
}

var c07Users = []string{"alice", "bob"}

func (c *c07Env) reset() {
	c.env.SetOutage(c.gate, false)
	c.dir.SetAll("up")
	c.side.Exec("delete from expiring_signed_user_data")
	c.sideC.Exec("delete from expiring_signed_user_data")
	c.m = &c07Model{DirPW: map[string]string{}, PrevPW: map[string]string{}, Primary: map[string]*c07Row{}, Cache: map[string]*c07Row{}, DirUp: true, Disabled: map[string]bool{}}
	c.dir.SetAccountState("", "")
	for _, u := range c07Users {
		c.m.DirPW[u] = "pw-" + u + "-0"
		c.m.PrevPW[u] = "pw-" + u + "-old"
		c.dir.SetPassword(u, c.m.DirPW[u])
	}
	c.trace = nil
}

func cloneRows(m map[string]*c07Row) map[string]*c07Row {
	o := map[string]*c07Row{}
	for k, v := range m {
		c := *v
		o[k] = &c
	}
	return o
}

type c07Action struct {
	Kind string // login | dir | chpw | expire | outage | sync | tamper
	User string
	Arg  string
}

func (a c07Action) String() string { return a.Kind + "(" + a.User + "," + a.Arg + ")" }

func c07Alphabet() []c07Action {
	var al []c07Action
	for _, u := range c07Users {
		for _, p := range []string{"cur", "prev", "wrong"} {
			al = append(al, c07Action{"login", u, p})
		}
		al = append(al, c07Action{"chpw", u, ""}, c07Action{"expire", u, ""})
	}
	for _, m := range []string{"up", "down", "error", "first-down", "second-down", "first-error"} {
		al = append(al, c07Action{"dir", "", m})
	}
	al = append(al, c07Action{"outage", "", "on"}, c07Action{"outage", "", "off"}, c07Action{"sync", "", ""})
	for _, t := range []string{"swap-rows", "flip-payload", "extend-column-of-expired", "foreign-key"} {
		al = append(al, c07Action{"tamper", "alice", t})
	}
	return al
}

func (c *c07Env) rowJWS(db *sql.DB, u string) (string, int64, bool) {
	var j string
	var e int64
	err := db.QueryRow("select jws_data, expiration_epoch from expiring_signed_user_data where username=? and type=1", u).Scan(&j, &e)
	return j, e, err == nil
}

func (c *c07Env) apply(a c07Action, seqName string) {
	t0 := time.Now()
	defer func() {
		k := a.Kind
		if a.Kind == "login" {
			k = fmt.Sprintf("login_dirup=%v_outage=%v", c.m.DirUp, c.m.Outage)
		}
		c.rep.Count("ms_"+k, int(time.Since(t0).Milliseconds()))
		c.rep.Count("n_"+k, 1)
	}()
	m := c.m
	c.trace = append(c.trace, a.String())
	switch a.Kind {
	case "account":
		// the directory refuses the account itself: the answer is still "Invalid Credentials" (result code 49), worded
		// the way Active Directory words it ("AcceptSecurityContext error, data 533": disabled; 775 locked out; 532
		// password expired; 701 account expired); "" re-enables
		c.dir.SetAccountState(a.User, a.Arg)
		m.Disabled[a.User] = a.Arg != ""
	case "dir":
		switch a.Arg {
		case "up":
			c.dir.SetAll("up")
			m.DirUp = true
		case "down":
			c.dir.SetAll("down")
			m.DirUp = false
		case "error":
			c.dir.SetAll("error")
			m.DirUp = false
		case "first-down":
			c.dir.SetAll("up")
			c.dir.SetMode(0, "down")
			m.DirUp = true
		case "second-down":
			c.dir.SetAll("up")
			c.dir.SetMode(1, "down")
			m.DirUp = true
		case "first-error":
			c.dir.SetAll("up")
			c.dir.SetMode(0, "error")
			m.DirUp = true
		}
	case "chpw":
		m.PWSerial++
		m.PrevPW[a.User] = m.DirPW[a.User]
		m.DirPW[a.User] = fmt.Sprintf("pw-%s-%d", a.User, m.PWSerial)
		c.dir.SetPassword(a.User, m.DirPW[a.User])
	case "expire":
		// the record is re-issued by the daemon's own store with a past expiry:
		// state equal to "96 hours have passed"
		if m.Outage {
			return
		}
		if r := m.Primary[a.User]; r != nil && r.Bad == "" && r.Owner == a.User {
			var hash string
			ok, hash, err := c.env.GetSigned(a.User, 1)
			if err == nil && ok {
				c.env.UpsertSigned(a.User, 1, time.Now().Add(-time.Hour).Unix(), hash)
				r.Bad, r.ColExp = "expired", true
				// time passes for every copy of the record: the mirror's copy (if it holds this record) ages too
				if cr := m.Cache[a.User]; cr != nil && cr.Bad == "" && cr.PW == r.PW {
					if j, e, ok := c.rowJWS(c.side, a.User); ok {
						c.sideC.Exec("update expiring_signed_user_data set jws_data=?, expiration_epoch=? where username=? and type=1", j, e, a.User)
						cr.Bad, cr.ColExp = "expired", true
					}
				}
			}
		}
	case "outage":
		on := a.Arg == "on"
		c.env.SetOutage(c.gate, on)
		m.Outage = on
	case "sync":
		if m.Outage {
			return
		}
		if err := c.env.SyncCache(); err != nil {
			c.rep.Obs("synchronisation failed: %v", err)
			return
		}
		nc := map[string]*c07Row{}
		for u, r := range m.Primary {
			if !r.ColExp {
				cp := *r
				nc[u] = &cp
			}
		}
		m.Cache = nc
	case "tamper":
		if m.Outage {
			return
		}
		ja, ea, oka := c.rowJWS(c.side, "alice")
		jb, eb, okb := c.rowJWS(c.side, "bob")
		switch a.Arg {
		case "swap-rows":
			if oka && okb {
				c.side.Exec("update expiring_signed_user_data set jws_data=?, expiration_epoch=? where username='alice' and type=1", jb, eb)
				c.side.Exec("update expiring_signed_user_data set jws_data=?, expiration_epoch=? where username='bob' and type=1", ja, ea)
				ra, rb := m.Primary["alice"], m.Primary["bob"]
				if ra != nil && rb != nil {
					// the records change places; whether one is honoured follows from
					// its owner (inside the signed record) versus the row's user
					*ra, *rb = *rb, *ra
				}
			}
		case "flip-payload":
			if oka {
				h, p, s, ok := verifSplitJWS(ja)
				if ok {
					p2 := []byte(strings.Replace(string(p), `"sub":"alice"`, `"sub":"alicf"`, 1))
					if string(p2) == string(p) {
						p2[len(p2)/2] ^= 1
					}
					c.side.Exec("update expiring_signed_user_data set jws_data=? where username='alice' and type=1", verifJoinJWS(h, p2, s))
					if r := m.Primary["alice"]; r != nil {
						r.Bad = "payload altered"
					}
				}
			}
		case "extend-column-of-expired":
			if oka {
				c.side.Exec("update expiring_signed_user_data set expiration_epoch=? where username='alice' and type=1", time.Now().Add(96*time.Hour).Unix())
				if r := m.Primary["alice"]; r != nil {
					r.ColExp = false // the unsigned column now claims validity; the signed expiry (Bad) is unchanged
				}
			}
		case "foreign-key":
			if oka {
				_, p, _, ok := verifSplitJWS(ja)
				if ok {
					var cl verifClaims
					json.Unmarshal(p, &cl)
					cl["exp"] = time.Now().Add(time.Hour).Unix()
					c.side.Exec("update expiring_signed_user_data set jws_data=?, expiration_epoch=? where username='alice' and type=1",
						verifMint(cl, verifSigner("foreign_rsa2048")), time.Now().Add(time.Hour).Unix())
					if r := m.Primary["alice"]; r != nil {
						r.Bad, r.ColExp = "signed with a foreign key", false
					}
				}
			}
		}
	case "login":
		u := a.User
		pw := map[string]string{"cur": m.DirPW[u], "prev": m.PrevPW[u], "wrong": "not-" + m.DirPW[u]}[a.Arg]
		typed := u
		if len(c.trace)%2 == 0 {
			typed = strings.ToUpper(u[:1]) + u[1:]
		}
		// three password entry points: login form, basic-auth on login, basic-auth on another route
		entry := []string{"login-form", "login-basic", "route-basic"}[(len(c.trace)+len(u))%3]
		var r *verifResp
		var accepted bool
		switch entry {
		case "login-form":
			r = c.env.Do(verifReq{Method: "POST", Path: "/api/v0/login", Form: url.Values{"username": {typed}, "password": {pw}}}.Build())
			accepted = r.Code == 200 && r.Cookie("auth_cookie") != nil
		case "login-basic":
			r = c.env.Do(verifReq{Method: "POST", Path: "/api/v0/login", UseBasic: true, BasicUser: typed, BasicPass: pw}.Build())
			accepted = r.Code == 200 && r.Cookie("auth_cookie") != nil
		default:
			// a route that takes passwords and then finds no hardware token: 400 when the password was accepted, 401 otherwise
			r = c.env.Do(verifReq{Method: "GET", Path: "/u2f/SignRequest", UseBasic: true, BasicUser: typed, BasicPass: pw}.Build())
			accepted = r.Code != 401 && r.Code != 429 && r.Code < 500
		}
		var expect bool
		var why string
		if m.DirUp {
			expect = pw == m.DirPW[u] && !m.Disabled[u]
			why = "directory answers"
			if m.Disabled[u] {
				why = "directory answers: account refused"
			}
		} else {
			store := m.Primary
			why = "no directory server answers, primary store"
			if m.Outage {
				store = m.Cache
				why = "no directory server answers, offline cache"
			}
			row := store[u]
			expect = row != nil && row.Bad == "" && !row.ColExp && row.Owner == u && row.PW == pw
		}
		cs := map[string]interface{}{"sequence": append([]string{}, c.trace...), "typed_user": typed, "entry_point": entry, "password_kind": a.Arg, "directory_answers": m.DirUp,
			"primary_outage": m.Outage, "expected_accept": expect, "accepted": accepted, "status": r.Code, "basis": why,
			"model_primary_row": m.Primary[u], "model_cache_row": m.Cache[u]}
		cls := fmt.Sprintf("login|%s|dir=%v|outage=%v|pw=%s|expect=%v|got=%v", entry, m.DirUp, m.Outage, a.Arg, expect, accepted)
		if !m.DirUp {
			st := m.Primary
			if m.Outage {
				st = m.Cache
			}
			state := "none"
			if r := st[u]; r != nil {
				state = "valid"
				if r.Owner != u {
					state = "record of another user"
				} else if r.Bad != "" {
					state = r.Bad
				} else if r.ColExp {
					state = "expired"
				}
			}
			cls += "|rec=" + state
		}
		c.rep.Eval(cls)
		c.rep.Count("logins", 1)
		if r.Panic != "" {
			c.rep.Violate("C07/panic", "login handler panicked", cs)
			return
		}
		if accepted != expect {
			key := "C07/accepted-wrongly/"
			if expect {
				key = "C07/refused-wrongly/"
			}
			basis := "directory-answers"
			if !m.DirUp {
				basis = "cache-decides"
				if row := (map[bool]map[string]*c07Row{false: m.Primary, true: m.Cache})[m.Outage][u]; row != nil && row.Owner != u {
					basis += ":record-of-another-user"
				} else if row != nil && row.Bad != "" {
					basis += ":" + strings.ReplaceAll(row.Bad, " ", "-")
				}
			}
			c.rep.Violate(key+basis+"/pw="+a.Arg, fmt.Sprintf("login accepted=%v, the model says %v (%s)", accepted, expect, why), cs)
			return
		}
		if accepted {
			c.rep.Count("accepted_"+map[bool]string{true: "directory", false: "cache"}[m.DirUp], 1)
		}
		// state update + stored-record check (only meaningful while the primary is reachable)
		if m.DirUp && !m.Outage {
			if accepted {
				m.Primary[u] = &c07Row{PW: pw, Owner: u}
				if j, colExp, ok := c.rowJWS(c.side, u); !ok {
					c.rep.Violate("C07/accepted-without-refresh", "a directory-confirmed login did not leave a cached hash in the primary store", cs)
				} else {
					c.rep.Count("refresh_checked", 1)
					// "younger than its expiry (96 hours)": the record just written may not be good for longer, neither
					// by its signed expiry nor by the unsigned column
					limit := time.Now().Add(96*time.Hour + time.Minute).Unix()
					signedExp := int64(-1)
					if _, pl, _, ok := verifSplitJWS(j); ok {
						var cl verifClaims
						if json.Unmarshal(pl, &cl) == nil {
							signedExp = verifClaimInt(cl, "exp")
						}
					}
					if colExp > limit || signedExp > limit || signedExp == 0 {
						cs["record_expiry_column"], cs["record_expiry_signed"], cs["limit_now_plus_96h"] = colExp, signedExp, limit
						c.rep.Violate("C07/cached-hash-outlives-96h", "the cached hash written by a directory-confirmed login is valid for longer than 96 hours", cs)
					} else {
						c.rep.Count("record_expiry_checked", 1)
					}
				}
			} else if row := m.Primary[u]; row != nil && row.Bad == "" && row.Owner == u && row.PW == pw {
				delete(m.Primary, u)
				if _, _, ok := c.rowJWS(c.side, u); ok {
					c.rep.Violate("C07/rejected-cached-password-not-evicted", "the directory rejected the cached password but the cached hash stayed in the primary store", cs)
				} else {
					c.rep.Count("eviction_checked", 1)
				}
			}
		}
		if seqName != "" {
			c.rep.Sample(cls, 1, map[string]interface{}{"sequence": append([]string{}, c.trace...), "expected_accept": expect, "accepted": accepted, "basis": why})
		}
	}
}

func newC07Env(t *testing.T, rep *verifReport, idx int) *c07Env {
	dir := newVerifDirectory(2)
	env, err := verifNewEnv(verifStateOpts{Name: fmt.Sprintf("c07-%d", idx), NoHtpasswd: true, AllowedCerts: []string{"U2F"}, AllowedWebUI: []string{"password"},
		ExtraTop: dir.PasswordYAML(false)})
	if err != nil {
		t.Fatal(err)
	}
	pl, _, err := env.HookDBs()
	if err != nil {
		t.Fatal(err)
	}
	gate := newVerifOutage()
	verifSQL.SetHook(pl, gate.Hook)
	side, _ := sql.Open("sqlite3", env.PrimaryDBPath())
	sideC, _ := sql.Open("sqlite3", env.CacheDBPath())
	c := &c07Env{env: env, dir: dir, gate: gate, side: side, sideC: sideC, rep: rep}
	env.SetOutage(gate, false)
	return c
}

func TestVerifC07(t *testing.T) {
	rep := newVerifReport("C07", "real LDAP authenticator + real signed store (primary and offline cache behind an interposing SQL driver) + fake two-server LDAPS directory; bounded histories over {login current/previous/wrong password (mixed-case names), directory up/down/erroring/first-server-down, password change, record expiry, primary-store outage on/off, synchronise, tamper: swap rows / flip payload / extend unsigned expiry column / foreign-key record} for two users, each after a prelude of confirmed logins + sync: exhaustive to a depth bound plus seeded random sequences; per-login oracle from a model (directory verdict final; cache decides only when no server answers and only an untampered, unexpired record of the same user); class = (directory answers, outage, password kind, expected, observed, record state)")
	defer rep.Finish()
	alphabet := c07Alphabet()
	depth := 2
	nRandom, randLen := 120, 5
	if verifThorough() {
		depth, nRandom, randLen = 3, 3000, 7
	}
	var seqs [][]c07Action
	var gen func(prefix []c07Action, d int)
	gen = func(prefix []c07Action, d int) {
		if d == 0 {
			seqs = append(seqs, append([]c07Action{}, prefix...))
			return
		}
		for _, a := range alphabet {
			gen(append(prefix, a), d-1)
		}
	}
	gen(nil, depth)
	nExh := len(seqs)
	rng := verifRand("c07")
	for i := 0; i < nRandom; i++ {
		var s []c07Action
		for k := 0; k < randLen; k++ {
			s = append(s, alphabet[rng.Intn(len(alphabet))])
		}
		// end with probing logins so that every history is judged
		s = append(s, c07Action{"login", "alice", []string{"cur", "prev", "wrong"}[rng.Intn(3)]})
		seqs = append(seqs, s)
	}
	// scripted deeper histories aimed at the corners of the statement
	A := func(k, u, a string) c07Action { return c07Action{k, u, a} }
	scripted := [][]c07Action{
		// the directory rejects the cached password; the eviction must reach the mirror with the next sync
		{A("chpw", "alice", ""), A("login", "alice", "prev"), A("sync", "", ""), A("outage", "", "on"), A("dir", "", "down"), A("login", "alice", "prev"), A("login", "alice", "cur")},
		{A("chpw", "alice", ""), A("login", "alice", "prev"), A("sync", "", ""), A("dir", "", "error"), A("outage", "", "on"), A("login", "alice", "prev")},
		// expiry
		{A("expire", "alice", ""), A("sync", "", ""), A("dir", "", "down"), A("login", "alice", "cur"), A("outage", "", "on"), A("login", "alice", "cur")},
		{A("expire", "alice", ""), A("tamper", "alice", "extend-column-of-expired"), A("dir", "", "down"), A("login", "alice", "cur")},
		{A("expire", "alice", ""), A("tamper", "alice", "extend-column-of-expired"), A("sync", "", ""), A("outage", "", "on"), A("dir", "", "down"), A("login", "alice", "cur")},
		// tampering
		{A("tamper", "alice", "swap-rows"), A("dir", "", "down"), A("login", "alice", "cur"), A("login", "bob", "cur")},
		{A("tamper", "alice", "swap-rows"), A("sync", "", ""), A("outage", "", "on"), A("dir", "", "error"), A("login", "alice", "cur"), A("login", "bob", "cur")},
		{A("tamper", "alice", "foreign-key"), A("dir", "", "down"), A("login", "alice", "cur")},
		{A("tamper", "alice", "flip-payload"), A("sync", "", ""), A("outage", "", "on"), A("dir", "", "down"), A("login", "alice", "cur")},
		// legitimate use of the cache
		{A("dir", "", "down"), A("login", "alice", "cur"), A("login", "alice", "wrong"), A("outage", "", "on"), A("login", "alice", "cur"), A("login", "bob", "cur")},
		{A("dir", "", "first-down"), A("chpw", "alice", ""), A("login", "alice", "cur"), A("login", "alice", "prev"), A("dir", "", "down"), A("login", "alice", "cur"), A("login", "alice", "prev")},
		// one answering server is final even when a later one is unreachable / an earlier one errors
		{A("chpw", "alice", ""), A("dir", "", "second-down"), A("login", "alice", "prev"), A("login", "alice", "prev"), A("login", "alice", "prev"), A("login", "alice", "cur")},
		{A("chpw", "alice", ""), A("dir", "", "first-error"), A("login", "alice", "prev"), A("login", "alice", "prev"), A("login", "alice", "prev"), A("dir", "", "down"), A("login", "alice", "prev")},
		{A("chpw", "bob", ""), A("dir", "", "second-down"), A("login", "bob", "prev"), A("login", "bob", "prev"), A("login", "bob", "prev"), A("dir", "", "down"), A("login", "bob", "prev"), A("login", "bob", "prev"), A("login", "bob", "prev")},
		// every entry point normalises the name before the backend and the cache see it
		{A("login", "alice", "cur"), A("login", "alice", "cur"), A("login", "alice", "cur"), A("chpw", "alice", ""), A("login", "alice", "prev"), A("login", "alice", "prev"), A("login", "alice", "prev"), A("dir", "", "down"), A("login", "alice", "prev"), A("login", "alice", "prev"), A("login", "alice", "prev"), A("login", "alice", "cur")},
		// the directory stays final while the primary store is out
		{A("chpw", "alice", ""), A("outage", "", "on"), A("login", "alice", "prev"), A("login", "alice", "cur"), A("dir", "", "down"), A("login", "alice", "cur")},
		// the directory refuses the account (disabled / locked out / password expired / account expired, in Active
		// Directory's wording): a verdict like any other - final, and it evicts the cached password
		{A("login", "alice", "cur"), A("account", "alice", "533"), A("login", "alice", "cur"), A("dir", "", "down"), A("login", "alice", "cur"), A("dir", "", "up"), A("account", "alice", ""), A("login", "alice", "cur")},
		{A("login", "bob", "cur"), A("sync", "", ""), A("account", "bob", "775"), A("login", "bob", "cur"), A("sync", "", ""), A("outage", "", "on"), A("dir", "", "error"), A("login", "bob", "cur")},
		{A("login", "alice", "cur"), A("account", "alice", "532"), A("login", "alice", "wrong"), A("login", "alice", "cur"), A("dir", "", "down"), A("login", "alice", "cur")},
		{A("login", "alice", "cur"), A("account", "alice", "701"), A("dir", "", "second-down"), A("login", "alice", "cur"), A("dir", "", "down"), A("login", "alice", "cur")},
		// a refreshed record replaces a tampered one
		{A("tamper", "alice", "flip-payload"), A("login", "alice", "cur"), A("dir", "", "down"), A("login", "alice", "cur")},
		{A("chpw", "bob", ""), A("login", "bob", "cur"), A("sync", "", ""), A("dir", "", "down"), A("outage", "", "on"), A("login", "bob", "prev"), A("login", "bob", "cur")},
	}
	seqs = append(seqs, scripted...)
	rep.Extra["scripted_sequences"] = len(scripted)
	// every exhaustive sequence is followed by probing logins of both users
	workers := 12
	var wg sync.WaitGroup
	for wk := 0; wk < workers; wk++ {
		wg.Add(1)
		go func(wk int) {
			defer wg.Done()
			c := newC07Env(t, rep, wk)
			for i, s := range seqs {
				if i%workers != wk {
					continue
				}
				c.reset()
				// prelude: confirmed logins of both users, mirrored into the cache
				c.apply(c07Action{"login", "alice", "cur"}, "")
				c.apply(c07Action{"login", "bob", "cur"}, "")
				c.apply(c07Action{"sync", "", ""}, "")
				for _, a := range s {
					c.apply(a, "x")
				}
				if i < nExh {
					// probe: what does each password do now?
					for _, p := range []string{"cur", "prev"} {
						c.apply(c07Action{"login", "alice", p}, "x")
					}
					c.apply(c07Action{"login", "bob", "cur"}, "x")
				}
				rep.Count("histories", 1)
			}
			c.env.SetOutage(c.gate, false)
		}(wk)
	}
	wg.Wait()
	rep.Extra["exhaustive_depth"] = depth
	rep.Extra["exhaustive_sequences"] = nExh
	rep.Extra["random_sequences"] = nRandom
	rep.Extra["alphabet"] = len(alphabet)
	rep.Floor("logins", 1500)
	rep.Floor("accepted_directory", 300)
	rep.Floor("accepted_cache", 20)
	rep.Floor("refresh_checked", 300)
	rep.Floor("eviction_checked", 5)
	rep.Floor("record_expiry_checked", 20)
	rep.Assume("record expiry (96 h) is simulated by re-issuing the record through the daemon's own store with a past expiry; the directory is a local LDAPS fake trusted through SSL_CERT_FILE")
}
