package main

// C18 - request-controlled text is never rendered as markup.
//
// Every HTML response is parsed with an HTML5 tree builder
// (golang.org/x/net/html).  Payloads are built so that a successful injection
// creates an element named vcanaryN or an attribute named vcanaryN; the canary
// may otherwise only appear in text nodes or inside attribute values.

import (
	"bytes"
	"fmt"
	"net/url"
	"strings"
	"testing"

	"golang.org/x/net/html"
)

type c18Hit struct {
	Where string `json:"where"`
	Node  string `json:"node"`
}

// c18Scan returns places where canary-originated markup exists in the DOM.
func c18Scan(body []byte) []c18Hit {
	doc, err := html.Parse(bytes.NewReader(body))
	if err != nil {
		return nil
	}
	var hits []c18Hit
	var walk func(n *html.Node, inScript bool)
	walk = func(n *html.Node, inScript bool) {
		switch n.Type {
		case html.ElementNode:
			if strings.Contains(strings.ToLower(n.Data), "vcanary") {
				hits = append(hits, c18Hit{"element", n.Data})
			}
			for _, a := range n.Attr {
				if strings.Contains(strings.ToLower(a.Key), "vcanary") {
					hits = append(hits, c18Hit{"attribute-name", n.Data + "@" + a.Key})
				}
				lk := strings.ToLower(a.Key)
				if strings.HasPrefix(lk, "on") && strings.Contains(strings.ToLower(a.Val), "vcanary") {
					hits = append(hits, c18Hit{"event-handler-attribute", n.Data + "@" + a.Key})
				}
				if (lk == "href" || lk == "src" || lk == "action" || lk == "formaction") &&
					strings.HasPrefix(strings.ToLower(strings.TrimSpace(a.Val)), "javascript:") && strings.Contains(strings.ToLower(a.Val), "vcanary") {
					hits = append(hits, c18Hit{"javascript-url", n.Data + "@" + a.Key})
				}
			}
			if n.Data == "script" || n.Data == "style" {
				inScript = true
			}
		case html.TextNode:
			if inScript && strings.Contains(strings.ToLower(n.Data), "vcanary") {
				hits = append(hits, c18Hit{"script-or-style-text", firstLines(n.Data, 1)})
			}
		case html.CommentNode:
			// inert
		}
		for c := n.FirstChild; c != nil; c = c.NextSibling {
			walk(c, inScript)
		}
	}
	walk(doc, false)
	return hits
}

func c18Payloads(n int) []string {
	c := fmt.Sprintf("vcanary%d", n)
	return []string{
		`"><` + c + `>`,
		`'><` + c + `>`,
		`" ` + c + `="1`,
		`' ` + c + `='1' x='`,
		`</title><` + c + `>`,
		`</textarea></script><` + c + `>`,
		`<` + c + ` onload=1>`,
		`&quot;&gt;&lt;` + c + `&gt;`,
		`%22%3E%3C` + c + `%3E`,
		`%2522%253E%253C` + c + `%253E`,
		"\"\t" + c + "=1 ",
		`"/><img src=x ` + c + `=1>`,
		`--><` + c + `>`,
		`javascript:` + c + `()`,
		// the same breakouts next to a malformed query pair (';' separator, stray '%', bad escape): a query that a
		// normaliser cannot parse is the one it is tempted to pass through verbatim
		`"><` + c + `>&a;b`,
		`"><` + c + ` ` + c + `=1>%zz`,
		`%"><` + c + `>`,
		`x;y="><` + c + `>`,
	}
}

type c18Case struct {
	Route   string   `json:"route"`
	Method  string   `json:"method"`
	Field   string   `json:"field"`
	Payload string   `json:"payload"`
	Cred    string   `json:"credential"`
	Status  int      `json:"status"`
	Hits    []c18Hit `json:"hits,omitempty"`
}

func TestVerifC18(t *testing.T) {
	rep := newVerifReport("C18", "canary payloads (quote/angle-bracket/attribute breakouts, entity- and URL-encoded, comment and title breakouts, and breakouts next to malformed query pairs) in every request-controlled field (query, form, path suffix) of every registered route, without credential / with a password session / with an admin hardware-token session, Accept: text/html, plus stored fields (user names accepted by the password backend, token names); each HTML response parsed with an HTML5 tree builder: no element or attribute named after the canary, no canary inside script/style/event-handler/javascript: contexts; class = (route, field, credential, status class, verdict)")
	defer rep.Finish()
	rng := verifRand("c18")
	_ = rng
	oidc := "openid_connect_idp:\n    clients:\n        - client_id: \"client-a\"\n          client_secret: \"secret-a\"\n          allowed_redirect_domains: [\"example.com\"]\n"
	env, err := verifNewEnv(verifStateOpts{Name: "c18", AllowedCerts: []string{"U2F"}, AllowedWebUI: []string{"password"},
		AdminUsers: []string{"root1"}, EnableTOTP: true, EnableBootstrap: true, CLILifetime: "1h", ExtraTop: oidc})
	if err != nil {
		t.Fatal(err)
	}
	env.SetPasswordChecker(verifPWFunc(func(u string, p []byte) (bool, error) { return string(p) == "pw" && u != "", nil }))
	ca := verifSigner("ca_rsa2048")
	aliceCk, _ := verifLogin(env, "alice", "pw")
	rootCk := verifMint(verifSessionClaims("root1", verifBit["password"]|verifBit["U2F"], timeNow().Add(-60e9), 16*3600e9), ca)
	if aliceCk == "" {
		t.Fatal("login failed")
	}
	creds := []struct {
		name string
		ck   map[string]string
	}{{"none", nil}, {"password-session", verifCk(aliceCk)}, {"admin-u2f-session", verifCk(rootCk)}}
	fields := []string{"login_destination", "user", "username", "client_id", "redirect_uri", "state", "nonce", "token", "port", "OTP",
		"index", "name", "action", "duration", "scope", "response_type", "code", "error", "password"}
	canary := 0
	cur := env // the deployment the probes go to
	probe := func(route, method, field, payload, credName string, q verifReq) {
		resp := cur.Do(q.Build())
		cs := c18Case{Route: route, Method: method, Field: field, Payload: payload, Cred: credName, Status: resp.Code}
		ct := resp.Header.Get("Content-Type")
		isHTML := strings.Contains(ct, "html") || (ct == "" && bytes.Contains(resp.Body, []byte("<")))
		verdict := "not-html"
		if resp.Panic != "" {
			rep.Obs("panic on %s %s field %s: %s", method, route, field, firstLines(resp.Panic, 1))
		}
		if isHTML {
			verdict = "inert"
			rep.Count("html_pages_parsed", 1)
			if bytes.Contains(bytes.ToLower(resp.Body), []byte("vcanary")) {
				rep.Count("html_pages_reflecting_canary", 1)
				verdict = "reflected-inert"
			}
			if hits := c18Scan(resp.Body); len(hits) > 0 {
				cs.Hits = hits
				verdict = "MARKUP"
				rep.Violate("C18/markup/"+route+"/"+field+"/"+hits[0].Where, "request-controlled text became markup: "+hits[0].Node, cs)
			} else if verdict == "reflected-inert" {
				rep.Sample("reflected:"+route+":"+field, 1, cs)
			}
		}
		rep.Eval(fmt.Sprintf("%s|%s|%s|%s|%d|%s", route, method, field, credName, resp.Code/100, verdict))
	}
	nPayload := 4
	if verifThorough() {
		nPayload = len(c18Payloads(0))
	}
	for _, rt := range env.Routes {
		path := rt.Pattern
		if strings.HasPrefix(path, "/static") || strings.HasPrefix(path, "/custom_static") {
			continue
		}
		for _, cr := range creds {
			for fi, field := range fields {
				canary++
				pls := c18Payloads(canary)
				np := nPayload
				if field == "login_destination" {
					np = 2 * len(pls) // every payload, bare and as the query of a local destination
				}
				for pi := 0; pi < np; pi++ {
					pl := pls[(pi+fi)%len(pls)]
					if pi >= len(pls) {
						pl = "/x?a=" + pl
					}
					for _, method := range []string{"GET", "POST"} {
						q := verifReq{Method: method, Header: map[string]string{"Accept": "text/html"}, Cookies: cr.ck}
						base := url.Values{}
						// make the request plausible enough to reach rendering code
						switch {
						case strings.Contains(path, "authorize"):
							base = url.Values{"response_type": {"code"}, "client_id": {"client-a"}, "scope": {"openid"}, "redirect_uri": {"https://a.example.com/cb"}}
						case strings.Contains(path, "login"):
							base = url.Values{"username": {"nobody"}, "password": {"wrong"}}
						}
						base.Set(field, pl)
						if method == "GET" {
							q.Path = path + "?" + base.Encode()
						} else {
							q.Path = path
							q.Form = base
						}
						probe(path, method, field, pl, cr.name, q)
					}
				}
			}
			// absolute-form request target with markup characters in the host (net/url accepts them there and
			// URL.String() emits the host verbatim); pages that echo the request URL must keep it inert
			canary++
			for hi, hostile := range []string{`"><vcanary%d>`, `'><vcanary%d>`, `"vcanary%d="1`, `x"><vcanary%d>.example.com`} {
				h := "keymaster.verif.test" + fmt.Sprintf(hostile, canary)
				for _, suffix := range []string{"", "?x=1", "?response_type=code&client_id=client-a&scope=openid&redirect_uri=https%3A%2F%2Fa.example.com%2Fcb"} {
					func() {
						defer func() { recover() }() // a target the request constructor refuses cannot reach the server either
						q := verifReq{Method: "GET", Path: path + suffix, Host: h, Header: map[string]string{"Accept": "text/html"}, Cookies: cr.ck}
						probe(path, "GET", "<absolute-form-host>", h, cr.name, q)
						rep.Count("absolute_form_host_probes", 1)
					}()
				}
				_ = hi
			}
			// raw (unencoded) query and path suffix
			canary++
			for _, pl := range c18Payloads(canary) {
				raw := strings.NewReplacer(" ", "%20", "\t", "%09", "#", "%23").Replace(pl)
				q := verifReq{Method: "GET", Path: path + "?x=" + raw, Header: map[string]string{"Accept": "text/html"}, Cookies: cr.ck}
				probe(path, "GET", "<raw-query>", pl, cr.name, q)
				if strings.HasSuffix(path, "/") {
					q2 := verifReq{Method: "GET", Path: path + url.PathEscape(pl), Header: map[string]string{"Accept": "text/html"}, Cookies: cr.ck}
					probe(path, "GET", "<path-suffix>", pl, cr.name, q2)
				}
			}
		}
	}
	// ---- a deployment with federated login enabled: its login page carries an extra form (and whatever fields that form
	// repeats); the destination payloads again, on the routes that render the login page
	if fenv, err := verifNewEnv(verifStateOpts{Name: "c18-federated", AllowedCerts: []string{"U2F"}, AllowedWebUI: []string{"password"},
		Oauth2IdPHost: "idp.verif.test", EnableTOTP: true, ExtraTop: oidc}); err != nil {
		rep.Inconc("federated-login deployment: %v", err)
	} else {
		fenv.SetPasswordChecker(verifPWFunc(func(u string, p []byte) (bool, error) { return string(p) == "pw" && u != "", nil }))
		cur = fenv
		pls := c18Payloads(600001)
		for _, path := range []string{"/api/v0/login", "/", "/profile/", "/idp/oauth2/authorize", "/showAuthToken", "/public/loginForm"} {
			for pi := 0; pi < 2*len(pls); pi++ {
				pl := pls[pi%len(pls)]
				if pi >= len(pls) {
					pl = "/profile/?x=" + pl
				}
				for _, method := range []string{"GET", "POST"} {
					base := url.Values{"username": {"nobody"}, "password": {"wrong"}, "login_destination": {pl}}
					q := verifReq{Method: method, Header: map[string]string{"Accept": "text/html"}}
					if method == "GET" {
						q.Path = path + "?" + base.Encode()
					} else {
						q.Path, q.Form = path, base
					}
					probe(path+"(federated login enabled)", method, "login_destination", pl, "none", q)
					rep.Count("federated_deployment_probes", 1)
				}
			}
			for _, pl := range pls {
				raw := strings.NewReplacer(" ", "%20", "\t", "%09", "#", "%23").Replace(pl)
				probe(path+"(federated login enabled)", "GET", "<raw-query>", pl, "none", verifReq{Method: "GET", Path: path + "?x=" + raw, Header: map[string]string{"Accept": "text/html"}})
			}
		}
		cur = env
	}
	// ---- successful login with a destination, webui needing a second factor: the 2FA page embeds the destination
	env.SetAllowedWebUI([]string{"U2F"})
	for i, pl := range c18Payloads(900001) {
		for _, dest := range []string{"/x?a=" + pl, "/" + pl, "/x#" + pl, "/x;" + pl} {
			for _, placement := range []string{"form", "query"} {
				f := url.Values{"username": {"alice"}, "password": {"pw"}}
				p := "/api/v0/login"
				if placement == "form" {
					f.Set("login_destination", dest)
				} else {
					p += "?login_destination=" + url.QueryEscape(dest)
				}
				probe("/api/v0/login(success->2FA page)", "POST", "login_destination:"+placement, dest, "password-ok",
					verifReq{Method: "POST", Path: p, Form: f, Header: map[string]string{"Accept": "text/html"}})
				// protected page with a password-only session: 401 html path renders the 2FA page
				probe("/profile/(insufficient level)", "POST", "login_destination:"+placement, dest, "password-session",
					verifReq{Method: "POST", Path: "/profile/", Form: url.Values{"login_destination": {dest}}, Header: map[string]string{"Accept": "text/html"}, Cookies: verifCk(aliceCk)})
			}
		}
		_ = i
	}
	env.SetAllowedWebUI([]string{"password"})
	// ---- stored text: user names the password backend accepts, seen on own pages and on admin pages
	for i, pl := range c18Payloads(800001) {
		name := "u" + pl
		if strings.ContainsAny(name, "\t") {
			continue
		}
		ck, _ := verifLogin(env, name, "pw")
		if ck == "" {
			rep.Count("hostile_username_login_refused", 1)
			continue
		}
		rep.Count("hostile_username_sessions", 1)
		h := map[string]string{"Accept": "text/html", "User-Agent": "Mozilla/5.0 Chrome/100"}
		probe("/profile/", "GET", "<stored:username>", name, "own-session", verifReq{Method: "GET", Path: "/profile/", Header: h, Cookies: verifCk(ck)})
		probe("/totp/GenerateNew/", "POST", "<stored:username>", name, "own-session", verifReq{Method: "POST", Path: "/totp/GenerateNew/", Header: h, Cookies: verifCk(ck)})
		probe("/showAuthToken", "GET", "<stored:username>", name, "own-session", verifReq{Method: "GET", Path: "/showAuthToken", Header: h, Cookies: verifCk(ck)})
		probe("/api/v0/logout", "GET", "<stored:username>", name, "own-session", verifReq{Method: "GET", Path: "/api/v0/logout", Header: h, Cookies: verifCk(ck)})
		probe("/users/", "GET", "<stored:username>", name, "admin-u2f-session", verifReq{Method: "GET", Path: "/users/", Header: h, Cookies: verifCk(rootCk)})
		probe("/profile/<other>", "GET", "<stored:username>", name, "admin-u2f-session", verifReq{Method: "GET", Path: "/profile/" + url.PathEscape(name), Header: h, Cookies: verifCk(rootCk)})
		_ = i
	}
	// ---- token names through the manage endpoints, then rendered on the profile page
	{
		ck, _ := verifLogin(env, "tokuser", "pw")
		tok := newVerifU2FToken()
		if err := verifEnrollU2F(env, ck, "tokuser", tok); err != nil {
			rep.Inconc("u2f enrolment failed: %v", err)
		} else {
			// find the index through the profile page is not needed: index = unix time of creation; try a window
			nowU := timeNow().Unix()
			for _, pl := range c18Payloads(700001) {
				for idx := nowU - 2; idx <= nowU+1; idx++ {
					env.Do(verifReq{Method: "POST", Path: "/api/v0/manageU2FToken", Form: url.Values{"username": {"tokuser"},
						"index": {fmt.Sprint(idx)}, "action": {"Update"}, "name": {"n " + pl}}, Cookies: verifCk(ck)}.Build())
				}
				probe("/profile/", "GET", "<stored:token-name>", pl, "own-session",
					verifReq{Method: "GET", Path: "/profile/", Header: map[string]string{"Accept": "text/html", "User-Agent": "Mozilla/5.0 Chrome/100"}, Cookies: verifCk(ck)})
			}
		}
	}
	// ---- the same pages while the primary store does not answer: profiles then come from the offline cache and pages
	// that say so (read-only notices, whose profile this is) are built on code paths nothing else reaches
	if pl, _, err := env.HookDBs(); err != nil {
		rep.Inconc("cannot interpose on the stores: %v", err)
	} else {
		gate := newVerifOutage()
		verifSQL.SetHook(pl, gate.Hook)
		env.SyncCache()
		env.SetOutage(gate, true)
		h := map[string]string{"Accept": "text/html", "User-Agent": "Mozilla/5.0 Chrome/100"}
		for _, rt := range env.Routes {
			path := rt.Pattern
			if strings.HasPrefix(path, "/static") || strings.HasPrefix(path, "/custom_static") {
				continue
			}
			for _, cr := range creds[1:] {
				canary++
				pls := c18Payloads(canary)
				for pi, pl := range pls {
					if strings.HasSuffix(path, "/") {
						probe(path+"(primary store unreachable)", "GET", "<path-suffix>", pl, cr.name, verifReq{Method: "GET", Path: path + url.PathEscape(pl), Header: h, Cookies: cr.ck})
						rep.Count("disconnected_store_probes", 1)
					}
					if pi < 2 {
						for _, field := range []string{"user", "username", "login_destination", "name"} {
							probe(path+"(primary store unreachable)", "GET", field, pl, cr.name, verifReq{Method: "GET", Path: path + "?" + url.Values{field: {pl}}.Encode(), Header: h, Cookies: cr.ck})
							rep.Count("disconnected_store_probes", 1)
						}
					}
				}
			}
		}
		gate.mu.Lock()
		nReads := gate.Reads
		gate.mu.Unlock()
		rep.Extra["disconnected_store_reads_served_from_cache"] = nReads
		if nReads == 0 {
			rep.Inconc("disconnected-store phase: no profile read reached the (closed) primary store")
		}
		env.SetOutage(gate, false)
		verifSQL.SetHook(pl, nil)
	}
	rep.Floor("disconnected_store_probes", 200)
	rep.Floor("html_pages_parsed", 300)
	rep.Floor("html_pages_reflecting_canary", 20)
	rep.Floor("hostile_username_sessions", 3)
	rep.Floor("absolute_form_host_probes", 100)
	rep.Floor("federated_deployment_probes", 200)
	rep.Extra["routes"] = len(env.Routes)
}
