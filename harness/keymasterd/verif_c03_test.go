package main

// C03 - every issued certificate is short-lived, whatever duration is asked.
//
// Refuting event: a returned certificate whose validity
//   * ends later than t_after + min(requested, 24h, credential-authenticated-at + 24h - t_before) + 1s,
//   * starts after t_after,
//   * is unbounded (SSH ValidBefore = 2^64-1) or wrapped around (huge end).
// t_before / t_after are the harness's own brackets around the request, so a
// loaded machine cannot produce a false alarm.  Automation certificates: <= 45
// days; cloud-role certificates: <= 24 hours.

import (
	"crypto/x509"
	"fmt"
	"math"
	"strings"
	"testing"
	"time"
)

type c03Case struct {
	Path      string  `json:"path"`
	CertType  string  `json:"cert_type"`
	Duration  string  `json:"duration"`
	Cred      string  `json:"credential"`
	AgeS      float64 `json:"credential_age_s"`
	Status    int     `json:"status"`
	StartUnix int64   `json:"start_unix,omitempty"`
	EndUnix   string  `json:"end_unix,omitempty"`
	AllowedS  float64 `json:"allowed_lifetime_s,omitempty"`
	Note      string  `json:"note,omitempty"`
}

func c03Durations(rng interface{ Intn(int) int }, n int) []string {
	d := []string{"\x00none", "", "1h", "0", "0s", "1ns", "-1ns", "-1s", "-1h", "30m", "15h", "16h", "23h59m59.999999999s",
		"24h", "24h0m0.000000001s", "24h1ns", "25h", "86400s", "86400.0000001s", "86399.9999999999s", "1440m", "1.5h", ".5h",
		"1e3s", "9223372036854775807ns", "-9223372036854775808ns", "-9223372036854775807ns",
		"2562047h47m16.854775807s", "-2562047h47m16.854775807s", "-2562047h47m16.854775808s", "-2562047h",
		"2562048h", "-500000h", "-490000h", "-497000h", "-1000000h", "-56y", "+1h", "+24h", "1h1h", "12h12h", "12h12h1ns",
		"1h-30m", "١h", "1H", "1 h", "1h ", " 1h", "1d", "100000000000000000000h", "0.000000000000000000001h",
		"-0", "-0h", "NaN", "inf", "1µs", "1us", "1μs", "3600000ms", "86400000ms", "86400001ms", "1h0m0s", "999999999999999999ns",
		"-17000000000s", "-1800000000s", "-1700000000s", "-2000000000s", "-4000000000s", "-9000000000s", "-9223372036s"}
	units := []string{"ns", "us", "ms", "s", "m", "h"}
	for len(d) < n {
		s := ""
		if rng.Intn(4) == 0 {
			s = "-"
		}
		for k := 1 + rng.Intn(3); k > 0; k-- {
			switch rng.Intn(4) {
			case 0:
				s += fmt.Sprintf("%d", rng.Intn(30))
			case 1:
				s += fmt.Sprintf("%d.%d", rng.Intn(30), rng.Intn(1000))
			case 2:
				s += fmt.Sprintf("%d", rng.Intn(1<<30)*(1+rng.Intn(1<<20)))
			default:
				s += fmt.Sprintf("%d", 86390+rng.Intn(20))
			}
			s += units[rng.Intn(len(units))]
		}
		d = append(d, s)
	}
	return d
}

// independent judgement of one certificate's validity interval
func c03Judge(rep *verifReport, cs *c03Case, path string, start, end int64, endUnbounded bool,
	tBefore, tAfter time.Time, requested *time.Duration, credAt time.Time, hardCap time.Duration) {
	allowed := hardCap
	if requested != nil && *requested < allowed {
		allowed = *requested
	}
	if !credAt.IsZero() {
		if rem := credAt.Add(24 * time.Hour).Sub(tBefore); rem < allowed {
			allowed = rem
		}
	}
	cs.StartUnix = start
	cs.EndUnix = fmt.Sprintf("%d", end)
	cs.AllowedS = allowed.Seconds()
	key := ""
	switch {
	case endUnbounded:
		key, cs.Note = "unbounded", "certificate never expires"
	case start > tAfter.Unix():
		key, cs.Note = "starts-in-future", "validity starts after the response"
	case float64(end)-float64(tAfter.Unix()) > allowed.Seconds()+1:
		key = "too-long"
		cs.Note = fmt.Sprintf("valid %.0fs beyond the response, allowed %.0fs", float64(end)-float64(tAfter.Unix()), allowed.Seconds())
		if float64(end)-float64(tAfter.Unix()) > 400*24*3600 {
			key = "wrapped-or-huge"
		}
	}
	if key != "" {
		neg := ""
		if requested != nil && *requested < 0 {
			neg = "/negative-duration"
		}
		rep.Violate("C03/"+key+"/"+path+neg, cs.Note, *cs)
	}
}

func TestVerifC03(t *testing.T) {
	rep := newVerifReport("C03", "duration strings (everything time.ParseDuration accepts incl. negative, zero, sub-second, >24h, +-2^63ns neighbours, concatenations; and malformed) x credential ages (cookie iat now/-1h/-8h/-15h59m, aged sessions stepped up with a hardware token just now, client-cert NotBefore ages, basic-auth, IP cert) x issuing path (certgen ssh/x509/kubernetes, automation mint, automation refresh, cloud role); validity fields decoded from every returned certificate and bounded with harness-bracketed time; class = (path, cert type, duration class, credential age, outcome)")
	defer rep.Finish()
	rng := verifRand("c03")
	verifInstallFakeSTS()
	env, err := verifNewEnv(verifStateOpts{Name: "c03", Users: map[string]string{"alice": "alice-pw-1", "root1": "root1-pw"},
		AllowedCerts: []string{"password", "U2F", "IPCertificate", "WebauthForCLI"}, AllowedWebUI: []string{"password"}, CLILifetime: "720h",
		AdminUsers: []string{"root1"}, AutomationUsers: []string{"autobot"}, ClientCA: true, Ed25519: true,
		ExtraTop: "aws_certs:\n    allowed_accounts: [\"123456789012\"]\n"})
	if err != nil {
		t.Fatal(err)
	}
	ca := verifSigner("ca_rsa2048")
	n := 90
	if verifThorough() {
		n = 4000
	}
	durs := c03Durations(rng, n)
	now := time.Now()
	type cred struct {
		name  string
		at    time.Time // when the credential was authenticated (zero = now)
		apply func(q *verifReq)
	}
	var creds []cred
	for _, age := range []time.Duration{0, time.Hour, 8 * time.Hour, 15*time.Hour + 59*time.Minute} {
		iat := now.Add(-age)
		tok := verifMint(verifSessionClaims("alice", verifBit["password"]|verifBit["U2F"], iat, 16*time.Hour), ca)
		creds = append(creds, cred{fmt.Sprintf("cookie-age-%s", age), iat, func(q *verifReq) {
			q.Cookies = map[string]string{"auth_cookie": tok}
		}})
	}
	// a session that was authenticated long ago and then stepped up with a second factor just now: the session's
	// authentication time is still the original one
	{
		ck0, _ := verifLogin(env, "alice", "alice-pw-1")
		tok := newVerifU2FToken()
		if err := verifEnrollU2F(env, ck0, "alice", tok); err != nil {
			rep.Inconc("U2F enrolment for the step-up credential failed: %v", err)
		} else {
			for _, age := range []time.Duration{8 * time.Hour, 15*time.Hour + 30*time.Minute} {
				iat := now.Add(-age)
				old := verifMint(verifSessionClaims("alice", verifBit["password"], iat, 16*time.Hour), ca)
				req, _ := verifU2FBegin(env, old)
				if req == nil {
					rep.Inconc("U2F sign request with the aged session failed")
					continue
				}
				r := verifU2FFinish(env, old, tok.SignResponse(req.AppID, req.Challenge))
				c := r.Cookie("auth_cookie")
				if r.Code != 200 || c == nil || c.Value == "" {
					rep.Inconc("U2F step-up of the aged session failed: %d", r.Code)
					continue
				}
				up := c.Value
				rep.Count("stepped_up_credentials", 1)
				creds = append(creds, cred{fmt.Sprintf("cookie-age-%s-then-u2f-step-up", age), iat, func(q *verifReq) {
					q.Cookies = map[string]string{"auth_cookie": up}
				}})
			}
		}
	}
	// long-lived CLI sessions (webauth_token_for_cli_lifetime = 30 days): the session outlives 16 h by design, the
	// certificates it yields are still bounded by the time it was authenticated
	for _, age := range []time.Duration{time.Hour, 20 * time.Hour, 23*time.Hour + 50*time.Minute} {
		iat := now.Add(-age)
		tok := verifMint(verifSessionClaims("alice", verifBit["WebauthForCLI"], iat, 720*time.Hour), ca)
		creds = append(creds, cred{fmt.Sprintf("cli-session-age-%s", age), iat, func(q *verifReq) {
			q.Cookies = map[string]string{"auth_cookie": tok}
		}})
	}
	creds = append(creds, cred{"basic", time.Time{}, func(q *verifReq) { q.UseBasic = true; q.BasicUser = "alice"; q.BasicPass = "alice-pw-1" }})
	for _, age := range []time.Duration{time.Minute, 12 * time.Hour, 23*time.Hour + 58*time.Minute} {
		nb := now.Add(-age)
		leaf := verifMakeLeaf("alice", verifUserECKey().Public(), env.UserCACert(), ca, nb, nb.Add(24*time.Hour), nil)
		cs := env.TLSFor(leaf)
		if cs == nil {
			rep.Inconc("client certificate did not verify")
			continue
		}
		creds = append(creds, cred{fmt.Sprintf("clientcert-age-%s", age), nb, func(q *verifReq) { q.TLS = cs }})
	}
	keys := verifAllUserKeys()
	types := []string{"ssh", "x509", "x509-kubernetes"}
	for di, ds := range durs {
		for ci, cr := range creds {
			if !verifThorough() && di >= 70 && (di+ci)%4 != 0 {
				continue
			}
			for ti, ct := range types {
				if !verifThorough() && (di+ci+ti)%2 != 0 && di >= 30 {
					continue
				}
				k := keys[(di+ci+ti)%len(keys)]
				if ct == "ssh" && (k.SSHAlg == "ecdsa-sha2-nistp384" || k.SSHAlg == "ecdsa-sha2-nistp521") {
					k = keys[0]
				}
				kd := k.PKIX
				if ct == "ssh" {
					kd = k.SSH
				}
				q := verifCertReq("alice", ct, kd, ds, nil)
				cr.apply(&q)
				tBefore := time.Now()
				resp := env.Do(q.Build())
				tAfter := time.Now()
				shown := ds
				if ds == "\x00none" {
					shown = "<absent>"
				}
				cs := c03Case{Path: "certgen", CertType: ct, Duration: shown, Cred: cr.name, Status: resp.Code}
				var requested *time.Duration
				dclass := "malformed"
				if ds == "\x00none" {
					dclass = "absent"
				} else if d, err := time.ParseDuration(ds); err == nil {
					requested = &d
					switch {
					case d < -50*365*24*time.Hour:
						dclass = "hugely-negative"
					case d < 0:
						dclass = "negative"
					case d == 0:
						dclass = "zero"
					case d < time.Second:
						dclass = "subsecond"
					case d <= 24*time.Hour:
						dclass = "<=24h"
					default:
						dclass = ">24h"
					}
				}
				out := "refused"
				if resp.Code == 200 {
					out = "issued"
				}
				rep.Eval(fmt.Sprintf("certgen|%s|%s|%s|%s", ct, dclass, cr.name, out))
				rep.Count("dur_"+dclass+"_"+out, 1)
				if resp.Panic != "" {
					rep.Violate("C03/panic/certgen", "handler panicked", map[string]interface{}{"case": cs, "panic": firstLines(resp.Panic, 10)})
					continue
				}
				if resp.Code != 200 {
					rep.Sample("refused:"+dclass, 1, cs)
					continue
				}
				credAt := cr.at
				if credAt.IsZero() {
					credAt = tBefore
				}
				if ct == "ssh" {
					c, err := verifParseSSHCert(resp.Body)
					if err != nil {
						rep.Violate("C03/unparsable/ssh", err.Error(), cs)
						continue
					}
					rep.Count("decoded_ssh", 1)
					endU := c.ValidBefore == math.MaxUint64
					end := int64(c.ValidBefore)
					if c.ValidBefore > math.MaxInt64 {
						end = math.MaxInt64
					}
					cs.EndUnix = fmt.Sprintf("%d", c.ValidBefore)
					c03Judge(rep, &cs, "certgen-ssh", int64(c.ValidAfter), end, endU, tBefore, tAfter, requested, credAt, 24*time.Hour)
					if c.ValidAfter > math.MaxInt64 {
						rep.Violate("C03/starts-in-future/certgen-ssh", "ValidAfter wrapped", cs)
					}
				} else {
					c, err := verifParseX509PEM(resp.Body)
					if err != nil {
						rep.Violate("C03/unparsable/x509", err.Error(), cs)
						continue
					}
					rep.Count("decoded_x509", 1)
					c03Judge(rep, &cs, "certgen-"+ct, c.NotBefore.Unix(), c.NotAfter.Unix(), false, tBefore, tAfter, requested, credAt, 24*time.Hour)
				}
				rep.Sample("issued:"+dclass+":"+ct, 1, cs)
			}
		}
	}
	// ---- automation certificates (mint + refresh): never beyond 45 days
	rootCookie, lr := verifLogin(env, "root1", "root1-pw")
	if rootCookie == "" {
		rep.Inconc("admin login failed: %d", lr.Code)
	}
	autoKey := verifUserECKey()
	roleDurs := []string{"\x00none", "1h", "2000h", "-1h", "9223372036854775807ns", "100000h", "bogus"}
	var lastRole *x509.Certificate
	for _, ds := range roleDurs {
		extra := map[string][]string{}
		if ds != "\x00none" {
			extra["duration"] = []string{ds}
		}
		q := verifRoleMintReq("autobot", autoKey.Public(), []string{"10.0.0.0/8"}, []string{"10.1.0.0/16"}, extra)
		q.Cookies = map[string]string{"auth_cookie": rootCookie}
		tBefore := time.Now()
		resp := env.Do(q.Build())
		tAfter := time.Now()
		cs := c03Case{Path: "role-mint", CertType: "x509-automation", Duration: strings.ReplaceAll(ds, "\x00none", "<absent>"), Cred: "admin-session", Status: resp.Code}
		out := "refused"
		if resp.Code == 200 {
			out = "issued"
		}
		rep.Eval("role-mint|" + cs.Duration + "|" + out)
		if resp.Code != 200 {
			continue
		}
		c, err := verifParseX509PEM(resp.Body)
		if err != nil {
			rep.Violate("C03/unparsable/role-mint", err.Error(), cs)
			continue
		}
		rep.Count("decoded_role", 1)
		lastRole = c
		c03Judge(rep, &cs, "role-mint", c.NotBefore.Unix(), c.NotAfter.Unix(), false, tBefore, tAfter, nil, time.Time{}, 45*24*time.Hour)
		rep.Sample("issued:role-mint", 1, cs)
	}
	if lastRole != nil {
		tlsState := env.TLSFor(lastRole)
		for i := 0; i < 3 && tlsState != nil; i++ {
			q := verifRoleRefreshReq(autoKey.Public())
			q.TLS = tlsState
			q.RemoteAddr = "10.9.8.7:5555"
			if i == 1 {
				q.Form.Set("duration", "100000h")
			}
			tBefore := time.Now()
			resp := env.Do(q.Build())
			tAfter := time.Now()
			cs := c03Case{Path: "role-refresh", CertType: "x509-automation", Cred: "ip-cert", Status: resp.Code}
			rep.Eval(fmt.Sprintf("role-refresh|%d|%d", i, resp.Code))
			if resp.Code != 200 {
				continue
			}
			c, err := verifParseX509PEM(resp.Body)
			if err != nil {
				rep.Violate("C03/unparsable/role-refresh", err.Error(), cs)
				continue
			}
			rep.Count("decoded_refresh", 1)
			c03Judge(rep, &cs, "role-refresh", c.NotBefore.Unix(), c.NotAfter.Unix(), false, tBefore, tAfter, nil, time.Time{}, 45*24*time.Hour)
			rep.Sample("issued:role-refresh", 1, cs)
		}
	}
	// ---- cloud-role certificates: never beyond 24 hours
	for i, k := range keys {
		q := verifCloudRoleReq("123456789012", fmt.Sprintf("role%d", i), fmt.Sprintf("arn:aws:iam::123456789012:role/role%d", i), k.PKIX)
		tBefore := time.Now()
		resp := env.Do(q.Build())
		tAfter := time.Now()
		cs := c03Case{Path: "cloud-role", CertType: "x509-cloud", Cred: "sts-presigned", Status: resp.Code}
		rep.Eval(fmt.Sprintf("cloud-role|%s|%d", k.Name, resp.Code))
		if resp.Code != 200 {
			rep.Sample("refused:cloud-role", 1, cs)
			continue
		}
		c, err := verifParseX509PEM(resp.Body)
		if err != nil {
			rep.Violate("C03/unparsable/cloud-role", err.Error(), cs)
			continue
		}
		rep.Count("decoded_cloud", 1)
		c03Judge(rep, &cs, "cloud-role", c.NotBefore.Unix(), c.NotAfter.Unix(), false, tBefore, tAfter, nil, time.Time{}, 24*time.Hour)
		rep.Sample("issued:cloud-role", 1, cs)
	}
	// ---- the same bounds on a host whose local time zone is not UTC (the sandbox's is): validity is a matter of
	// instants, whatever the zone the daemon's clock is displayed in
	savedLocal := time.Local
	for _, off := range []int{-8, 1, 9, 14} {
		time.Local = time.FixedZone(fmt.Sprintf("UTC%+d", off), off*3600)
		zone := fmt.Sprintf("local-zone-UTC%+d", off)
		for i, k := range keys[:2] {
			q := verifCloudRoleReq("123456789012", fmt.Sprintf("zrole%d", i), fmt.Sprintf("arn:aws:iam::123456789012:role/zrole%d", i), k.PKIX)
			tBefore := time.Now()
			resp := env.Do(q.Build())
			tAfter := time.Now()
			cs := c03Case{Path: "cloud-role", CertType: "x509-cloud", Cred: "sts-presigned," + zone, Status: resp.Code}
			rep.Eval(fmt.Sprintf("cloud-role|%s|%d", zone, resp.Code))
			if c, err := verifParseX509PEM(resp.Body); resp.Code == 200 && err == nil {
				rep.Count("decoded_other_zone", 1)
				c03Judge(rep, &cs, "cloud-role", c.NotBefore.Unix(), c.NotAfter.Unix(), false, tBefore, tAfter, nil, time.Time{}, 24*time.Hour)
			}
			for _, ct := range types {
				kd := k.PKIX
				if ct == "ssh" {
					kd = k.SSH
				}
				// a session near the end of its window asking for more than is left, and a fresh one asking for little
				// (the second is issued under any lifetime policy, so the phase observes certificates even on a tree
				// whose limits are tighter than today's)
				for _, sess := range []struct {
					age  time.Duration
					life time.Duration
					dur  string
					d    time.Duration
					name string
				}{{23 * time.Hour, 30 * time.Hour, "2h", 2 * time.Hour, "cookie-age-23h"}, {5 * time.Minute, 2 * time.Hour, "10m", 10 * time.Minute, "cookie-age-5m"}} {
					d := sess.d
					q := verifCertReq("alice", ct, kd, sess.dur, nil)
					iat := time.Now().Add(-sess.age)
					q.Cookies = map[string]string{"auth_cookie": verifMint(verifSessionClaims("alice", verifBit["password"]|verifBit["U2F"], iat, sess.life), ca)}
					tBefore := time.Now()
					resp := env.Do(q.Build())
					tAfter := time.Now()
					cs := c03Case{Path: "certgen", CertType: ct, Cred: sess.name + "," + zone, Status: resp.Code, Duration: sess.dur}
					rep.Eval(fmt.Sprintf("certgen|%s|%s|%s|%d", ct, zone, sess.name, resp.Code))
					if resp.Code != 200 {
						continue
					}
					var nb, na int64
					if ct == "ssh" {
						sc, err := verifParseSSHCert(resp.Body)
						if err != nil {
							continue
						}
						nb, na = int64(sc.ValidAfter), int64(sc.ValidBefore)
					} else {
						xc, err := verifParseX509PEM(resp.Body)
						if err != nil {
							continue
						}
						nb, na = xc.NotBefore.Unix(), xc.NotAfter.Unix()
					}
					rep.Count("decoded_other_zone", 1)
					c03Judge(rep, &cs, "certgen-"+ct, nb, na, false, tBefore, tAfter, &d, iat, 24*time.Hour)
				}
			}
		}
	}
	time.Local = savedLocal
	rep.Floor("decoded_other_zone", 16)
	rep.Floor("decoded_ssh", 50)
	rep.Floor("decoded_x509", 50)
	rep.Floor("decoded_role", 1)
	rep.Floor("stepped_up_credentials", 2)
	rep.Floor("decoded_refresh", 1)
	rep.Floor("decoded_cloud", 3)
	rep.Floor("dur_<=24h_issued", 10)
	rep.Assume("windows that cannot be waited out are exercised by minting session cookies / client certificates with shifted iat / NotBefore (only shapes a real credential can have)")
	if len(env.Panics) > 0 {
		rep.Count("panics", len(env.Panics))
	}
}
