//go:build race

package main

const verifRaceEnabled = true
