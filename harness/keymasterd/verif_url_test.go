package main

// A small WHATWG-style URL reader: which origin would a browser contact for a
// raw string found in a Location header?  Deliberately conservative: when the
// string is something a browser would not navigate, or the host needs IDNA
// processing this reader does not implement, ok=false (oracle abstains).

import (
	"strings"
)

type verifBrowserURL struct {
	Scheme   string
	Userinfo string
	Host     string // lower-cased, percent-decoded, without port
	Port     string
	Path     string
	Query    string
	HasQuery bool
	Fragment string
}

func isSpecialScheme(s string) bool {
	switch s {
	case "http", "https", "ftp", "ws", "wss", "file":
		return true
	}
	return false
}

// verifBrowserParse parses an absolute URL string the way a browser does.
func verifBrowserParse(raw string) (u verifBrowserURL, ok bool) {
	// strip leading/trailing C0 control or space
	s := strings.TrimFunc(raw, func(r rune) bool { return r <= 0x20 })
	// remove all ASCII tab or newline
	s = strings.Map(func(r rune) rune {
		if r == '\t' || r == '\n' || r == '\r' {
			return -1
		}
		return r
	}, s)
	// scheme
	i := strings.IndexByte(s, ':')
	if i <= 0 {
		return u, false
	}
	sch := s[:i]
	for k, c := range sch {
		isAlpha := (c >= 'a' && c <= 'z') || (c >= 'A' && c <= 'Z')
		if k == 0 && !isAlpha {
			return u, false
		}
		if !isAlpha && !(c >= '0' && c <= '9') && c != '+' && c != '-' && c != '.' {
			return u, false
		}
	}
	u.Scheme = strings.ToLower(sch)
	rest := s[i+1:]
	if !isSpecialScheme(u.Scheme) || u.Scheme == "file" {
		// opaque / non-special: not a web origin this reader decides
		return u, false
	}
	// special authority (ignore) slashes: skip any run of / and \
	rest = strings.TrimLeft(rest, "/\\")
	// fragment first (it can contain anything)
	if k := strings.IndexByte(rest, '#'); k >= 0 {
		u.Fragment = rest[k+1:]
		rest = rest[:k]
	}
	if k := strings.IndexByte(rest, '?'); k >= 0 {
		u.Query = rest[k+1:]
		u.HasQuery = true
		rest = rest[:k]
	}
	// authority ends at / or \ (special schemes)
	auth := rest
	if k := strings.IndexAny(rest, "/\\"); k >= 0 {
		auth = rest[:k]
		u.Path = strings.ReplaceAll(rest[k:], "\\", "/")
	}
	if k := strings.LastIndexByte(auth, '@'); k >= 0 {
		u.Userinfo = auth[:k]
		auth = auth[k+1:]
	}
	host := auth
	if strings.HasPrefix(host, "[") {
		k := strings.IndexByte(host, ']')
		if k < 0 {
			return u, false
		}
		u.Port = strings.TrimPrefix(host[k+1:], ":")
		host = host[:k+1]
	} else if k := strings.LastIndexByte(host, ':'); k >= 0 {
		u.Port = host[k+1:]
		host = host[:k]
	}
	for _, c := range u.Port {
		if c < '0' || c > '9' {
			return u, false
		}
	}
	if len(u.Port) > 5 {
		return u, false
	}
	if host == "" {
		return u, false
	}
	// percent-decode the host
	var dec strings.Builder
	for k := 0; k < len(host); k++ {
		if host[k] == '%' {
			if k+2 >= len(host) {
				return u, false
			}
			h, okh := unhex2(host[k+1], host[k+2])
			if !okh {
				return u, false
			}
			dec.WriteByte(h)
			k += 2
			continue
		}
		dec.WriteByte(host[k])
	}
	host = dec.String()
	for k := 0; k < len(host); k++ {
		c := host[k]
		if c >= 0x80 {
			return u, false // needs IDNA: abstain
		}
		// forbidden host code points: the browser fails the parse
		if c <= 0x20 || c == 0x7f || (host[0] != '[' && strings.IndexByte("#%/:<>?@[\\]^|", c) >= 0) {
			return u, false
		}
	}
	u.Host = strings.ToLower(host)
	return u, true
}

func unhex2(a, b byte) (byte, bool) {
	h := func(c byte) (byte, bool) {
		switch {
		case c >= '0' && c <= '9':
			return c - '0', true
		case c >= 'a' && c <= 'f':
			return c - 'a' + 10, true
		case c >= 'A' && c <= 'F':
			return c - 'A' + 10, true
		}
		return 0, false
	}
	x, ok1 := h(a)
	y, ok2 := h(b)
	return x<<4 | y, ok1 && ok2
}

// verifPathHasDotDot: would the browser's path contain a parent-directory
// segment (also spelled %2e%2e / .%2e / %2e.)?
func verifPathHasDotDot(path string) bool {
	// for the special schemes a browser treats a backslash in the path as a slash
	for _, seg := range strings.Split(strings.ReplaceAll(path, "\\", "/"), "/") {
		l := strings.ToLower(seg)
		l = strings.ReplaceAll(l, "%2e", ".")
		if l == ".." {
			return true
		}
	}
	return false
}

// verifHostInDomains: host equals a domain or is a subdomain with a dot boundary
func verifHostInDomains(host string, domains []string) bool {
	for _, d := range domains {
		d = strings.ToLower(d)
		if host == d || strings.HasSuffix(host, "."+d) {
			return true
		}
	}
	return false
}
