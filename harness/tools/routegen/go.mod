module verif/routegen

go 1.23
