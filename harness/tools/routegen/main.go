// routegen extracts the route registrations of keymasterd's main() from the
// current source tree and writes a Go file (package main, test-only) with
//
//	func verifRegisterServiceRoutes(runtimeState *RuntimeState, serviceMux verifMuxT)
//	func verifRegisterAdminRoutes(runtimeState *RuntimeState, adminMux verifMuxT)
//
// The statement range copied for the service mux starts right after
// `serviceMux := http.NewServeMux()` and ends at the last top-level statement
// of main() that mentions serviceMux as a call receiver (including the `if`
// guards around optional routes).  Admin routes are the top-level
// `http.Handle*(...)` calls of main() that do not reference a local variable of
// main() other than runtimeState.
//
// Exit status 2 when the anchors cannot be found (the check is then broken, not
// a verdict).
package main

import (
	"bytes"
	"fmt"
	"go/ast"
	"go/parser"
	"go/printer"
	"go/token"
	"os"
	"sort"
	"strings"
)

func die(format string, a ...interface{}) {
	fmt.Fprintf(os.Stderr, "routegen: "+format+"\n", a...)
	os.Exit(2)
}

func mentionsReceiver(n ast.Node, name string) bool {
	found := false
	ast.Inspect(n, func(x ast.Node) bool {
		if sel, ok := x.(*ast.SelectorExpr); ok {
			if id, ok := sel.X.(*ast.Ident); ok && id.Name == name &&
				strings.HasPrefix(sel.Sel.Name, "Handle") {
				found = true
			}
		}
		return true
	})
	return found
}

func identsUsed(n ast.Node) map[string]bool {
	out := map[string]bool{}
	ast.Inspect(n, func(x ast.Node) bool {
		if id, ok := x.(*ast.Ident); ok {
			out[id.Name] = true
		}
		return true
	})
	return out
}

func main() {
	if len(os.Args) != 3 {
		die("usage: routegen <app.go> <out.go>")
	}
	fset := token.NewFileSet()
	f, err := parser.ParseFile(fset, os.Args[1], nil, parser.ParseComments)
	if err != nil {
		die("parse: %v", err)
	}
	var mainFn *ast.FuncDecl
	for _, d := range f.Decls {
		if fd, ok := d.(*ast.FuncDecl); ok && fd.Name.Name == "main" && fd.Recv == nil {
			mainFn = fd
		}
	}
	if mainFn == nil {
		die("func main not found in %s", os.Args[1])
	}
	stmts := mainFn.Body.List
	// locals of main()
	locals := map[string]bool{}
	for _, s := range stmts {
		if as, ok := s.(*ast.AssignStmt); ok && as.Tok == token.DEFINE {
			for _, l := range as.Lhs {
				if id, ok := l.(*ast.Ident); ok {
					locals[id.Name] = true
				}
			}
		}
	}
	start := -1
	for i, s := range stmts {
		as, ok := s.(*ast.AssignStmt)
		if !ok || as.Tok != token.DEFINE || len(as.Lhs) != 1 {
			continue
		}
		if id, ok := as.Lhs[0].(*ast.Ident); ok && id.Name == "serviceMux" {
			start = i
		}
	}
	if start < 0 {
		die("anchor `serviceMux := ...` not found in main()")
	}
	end := -1
	for i := start + 1; i < len(stmts); i++ {
		if mentionsReceiver(stmts[i], "serviceMux") {
			end = i
		}
	}
	if end < 0 {
		die("no serviceMux.Handle* statement found")
	}
	var svc bytes.Buffer
	// locals defined inside the range are fine; locals defined before the
	// range other than runtimeState/err are not available.
	definedInRange := map[string]bool{}
	for i := start + 1; i <= end; i++ {
		if as, ok := stmts[i].(*ast.AssignStmt); ok && as.Tok == token.DEFINE {
			for _, l := range as.Lhs {
				if id, ok := l.(*ast.Ident); ok {
					definedInRange[id.Name] = true
				}
			}
		}
	}
	used := map[string]bool{}
	for i := start + 1; i <= end; i++ {
		for k := range identsUsed(stmts[i]) {
			used[k] = true
		}
		for k := range identsUsed(stmts[i]) {
			if locals[k] && !definedInRange[k] && k != "runtimeState" &&
				k != "err" && k != "serviceMux" {
				die("service route block uses local %q of main() that the harness cannot supply", k)
			}
		}
		var b bytes.Buffer
		if err := printer.Fprint(&b, fset, stmts[i]); err != nil {
			die("print: %v", err)
		}
		svc.WriteString("\t" + strings.ReplaceAll(b.String(), "\n", "\n\t") + "\n")
	}
	var adm bytes.Buffer
	nAdmin := 0
	for _, s := range stmts {
		es, ok := s.(*ast.ExprStmt)
		if !ok {
			continue
		}
		call, ok := es.X.(*ast.CallExpr)
		if !ok {
			continue
		}
		sel, ok := call.Fun.(*ast.SelectorExpr)
		if !ok {
			continue
		}
		id, ok := sel.X.(*ast.Ident)
		if !ok || id.Name != "http" || !strings.HasPrefix(sel.Sel.Name, "Handle") {
			continue
		}
		skip := false
		for k := range identsUsed(call) {
			if locals[k] && k != "runtimeState" {
				skip = true
			}
		}
		if skip {
			continue
		}
		for k := range identsUsed(call) {
			used[k] = true
		}
		id.Name = "adminMux"
		var b bytes.Buffer
		if err := printer.Fprint(&b, fset, s); err != nil {
			die("print: %v", err)
		}
		id.Name = "http"
		adm.WriteString("\t" + b.String() + "\n")
		nAdmin++
	}
	if nAdmin == 0 {
		die("no admin http.Handle* registrations found")
	}
	// imports actually referenced
	var imports []string
	for _, imp := range f.Imports {
		path := strings.Trim(imp.Path.Value, "\"")
		name := path[strings.LastIndex(path, "/")+1:]
		if imp.Name != nil {
			name = imp.Name.Name
		}
		if name == "http" {
			continue
		}
		if used[name] {
			if imp.Name != nil {
				imports = append(imports, fmt.Sprintf("\t%s %q", imp.Name.Name, path))
			} else {
				imports = append(imports, fmt.Sprintf("\t%q", path))
			}
		}
	}
	sort.Strings(imports)
	var out bytes.Buffer
	out.WriteString("// Code generated by /verif/harness/tools/routegen from main(); DO NOT EDIT.\n\n")
	out.WriteString("package main\n\nimport (\n\t\"net/http\"\n")
	for _, l := range imports {
		out.WriteString(l + "\n")
	}
	out.WriteString(")\n\nvar _ = http.StatusOK\n\n")
	out.WriteString("func verifRegisterServiceRoutes(runtimeState *RuntimeState, serviceMux verifMuxT) {\n")
	out.WriteString("\tvar err error\n\t_ = err\n")
	out.Write(svc.Bytes())
	out.WriteString("}\n\n")
	out.WriteString("func verifRegisterAdminRoutes(runtimeState *RuntimeState, adminMux verifMuxT) {\n")
	out.Write(adm.Bytes())
	out.WriteString("}\n")
	if err := os.WriteFile(os.Args[2], out.Bytes(), 0644); err != nil {
		die("write: %v", err)
	}
}
