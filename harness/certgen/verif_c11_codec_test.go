package certgen

// C11 (codec part): RFC 3779 netblock encode / decode / membership against an
// independent uint32 oracle, for every prefix length 0..32 with boundary
// addresses, multi-block lists, IPv6 / IPv4-mapped peers and structurally
// corrupted extensions.

import (
	"crypto/ecdsa"
	"crypto/elliptic"
	"crypto/rand"
	"crypto/x509"
	"crypto/x509/pkix"
	"encoding/asn1"
	"fmt"
	"math/big"
	"net"
	"sort"
	"testing"
	"time"
)

type c11Block struct {
	Net uint32
	Len int
}

func (b c11Block) String() string {
	return fmt.Sprintf("%d.%d.%d.%d/%d", b.Net>>24, b.Net>>16&255, b.Net>>8&255, b.Net&255, b.Len)
}

func c11Mask(l int) uint32 {
	if l == 0 {
		return 0
	}
	return ^uint32(0) << (32 - l)
}

func (b c11Block) contains(ip uint32) bool { return ip&c11Mask(b.Len) == b.Net&c11Mask(b.Len) }

func c11IP(u uint32) net.IP { return net.IPv4(byte(u>>24), byte(u>>16), byte(u>>8), byte(u)) }

func c11IPNet(b c11Block, fourByte bool) net.IPNet {
	ip := c11IP(b.Net)
	if fourByte {
		ip = ip.To4()
	}
	return net.IPNet{IP: ip, Mask: net.CIDRMask(b.Len, 32)}
}

type c11CA struct {
	cert *x509.Certificate
	key  *ecdsa.PrivateKey
	leaf *ecdsa.PrivateKey
}

func c11NewCA(t *testing.T) *c11CA {
	k, _ := ecdsa.GenerateKey(elliptic.P256(), rand.Reader)
	der, err := GenSelfSignedCACert("verif-role-ca", "verif", k)
	if err != nil {
		t.Fatal(err)
	}
	c, err := x509.ParseCertificate(der)
	if err != nil {
		t.Fatal(err)
	}
	l, _ := ecdsa.GenerateKey(elliptic.P256(), rand.Reader)
	return &c11CA{c, k, l}
}

func (ca *c11CA) mint(blocks []net.IPNet) (*x509.Certificate, error) {
	der, err := GenIPRestrictedX509Cert("autobot", &ca.leaf.PublicKey, ca.cert, ca.key, blocks, time.Hour, nil, nil)
	if err != nil {
		return nil, err
	}
	return x509.ParseCertificate(der)
}

// certificate with an arbitrary (possibly corrupted) extension value, signed
// by the same CA: "an otherwise trusted certificate"
func (ca *c11CA) mintRaw(extValue []byte) (*x509.Certificate, error) {
	tmpl := &x509.Certificate{SerialNumber: big.NewInt(time.Now().UnixNano()),
		Subject: pkix.Name{CommonName: "autobot"}, NotBefore: time.Now().Add(-time.Minute),
		NotAfter: time.Now().Add(time.Hour), ExtKeyUsage: []x509.ExtKeyUsage{x509.ExtKeyUsageClientAuth},
		ExtraExtensions: []pkix.Extension{{Id: asn1.ObjectIdentifier{1, 3, 6, 1, 5, 5, 7, 1, 7}, Value: extValue}}}
	der, err := x509.CreateCertificate(rand.Reader, tmpl, ca.cert, &ca.leaf.PublicKey, ca.key)
	if err != nil {
		return nil, err
	}
	return x509.ParseCertificate(der)
}

func c11Normalise(nets []net.IPNet) []string {
	var out []string
	for _, n := range nets {
		ones, bits := n.Mask.Size()
		ip := n.IP.To4()
		if ip == nil || bits != 32 {
			out = append(out, "non-ipv4:"+n.String())
			continue
		}
		u := uint32(ip[0])<<24 | uint32(ip[1])<<16 | uint32(ip[2])<<8 | uint32(ip[3])
		out = append(out, c11Block{u & c11Mask(ones), ones}.String())
	}
	sort.Strings(out)
	return out
}

func c11SafeVerify(cert *x509.Certificate, remote string) (ok bool, err error, panicked interface{}) {
	defer func() {
		if p := recover(); p != nil {
			panicked = p
		}
	}()
	ok, err = VerifyIPRestrictedX509CertIP(cert, remote)
	return
}

func c11SafeExtract(cert *x509.Certificate) (nets []net.IPNet, err error, panicked interface{}) {
	defer func() {
		if p := recover(); p != nil {
			panicked = p
		}
	}()
	nets, err = ExtractIPNetsFromIPRestrictedX509(cert)
	return
}

type c11Case struct {
	Blocks  []string `json:"blocks"`
	Peer    string   `json:"peer,omitempty"`
	Inside  bool     `json:"inside_by_oracle"`
	Got     bool     `json:"accepted"`
	Err     string   `json:"err,omitempty"`
	ReadBack []string `json:"read_back,omitempty"`
	Ext     string   `json:"extension_hex,omitempty"`
}

func TestVerifC11(t *testing.T) {
	rep := newVerifReport("C11", "codec: every prefix length 0..32 x base addresses (0.0.0.0, 127.0.0.0, 10.x, 255.255.255.x, random) x peers (network, broadcast, one below, one above, far, random) with membership decided by uint32 arithmetic; netblocks read back == minted; multi-block lists; IPv6 and IPv4-mapped peers; unmasked and IPv6 blocks; structurally corrupted extensions (bit lengths 0..600 and around 2^10, 2^11, 2^12, 2^16, empty/unknown families, garbage) must be rejected without panic and never accept an outside peer; class = (prefix length, peer position, verdict)")
	defer rep.Finish()
	rng := verifRand("c11codec")
	ca := c11NewCA(t)
	bases := []uint32{0, 0x7f000000, 0x0a000000, 0x0a141e28, 0xffffff00, 0xfffffffe, 0xc0a80780, 0x80000000, 0x01020304}
	nRandBase := 3
	if verifThorough() {
		nRandBase = 60
	}
	for i := 0; i < nRandBase; i++ {
		bases = append(bases, rng.Uint32())
	}
	check := func(blocks []c11Block, cert *x509.Certificate, peer uint32, pos string) {
		inside := false
		var bs []string
		for _, b := range blocks {
			bs = append(bs, b.String())
			if b.contains(peer) {
				inside = true
			}
		}
		remote := fmt.Sprintf("%s:%d", c11IP(peer).String(), 1024+rng.Intn(60000))
		ok, err, p := c11SafeVerify(cert, remote)
		cs := c11Case{Blocks: bs, Peer: remote, Inside: inside, Got: ok}
		if err != nil {
			cs.Err = err.Error()
		}
		l := -1
		if len(blocks) == 1 {
			l = blocks[0].Len
		}
		rep.Eval(fmt.Sprintf("len=%d|%s|inside=%v|accepted=%v", l, pos, inside, ok))
		if p != nil {
			rep.Violate("C11/codec/panic-wellformed", fmt.Sprint(p), cs)
			return
		}
		if ok != inside {
			k := "accepts-outside"
			if inside {
				k = "rejects-inside"
			}
			rep.Violate(fmt.Sprintf("C11/codec/%s/len=%d", k, l), "membership differs from the uint32 oracle", cs)
		} else {
			rep.Count(fmt.Sprintf("membership_%v", inside), 1)
			rep.Sample(fmt.Sprintf("member:%v:%s", inside, pos), 1, cs)
		}
	}
	for l := 0; l <= 32; l++ {
		for bi, base := range bases {
			b := c11Block{base & c11Mask(l), l}
			cert, err := ca.mint([]net.IPNet{c11IPNet(b, bi%2 == 0)})
			if err != nil {
				rep.Violate("C11/codec/mint-refused", err.Error(), c11Case{Blocks: []string{b.String()}})
				continue
			}
			nets, err, p := c11SafeExtract(cert)
			rb := c11Normalise(nets)
			if p != nil || err != nil || len(rb) != 1 || rb[0] != b.String() {
				rep.Violate(fmt.Sprintf("C11/codec/readback/len=%d", l), "netblocks read back differ from the minted ones",
					c11Case{Blocks: []string{b.String()}, ReadBack: rb, Err: fmt.Sprint(err, p)})
			} else {
				rep.Count("readback_ok", 1)
			}
			network := b.Net
			bcast := b.Net | ^c11Mask(l)
			peers := map[string]uint32{"network": network, "broadcast": bcast, "below": network - 1,
				"above": bcast + 1, "far": network ^ 0x80000000, "random": rng.Uint32(), "mid": network | (^c11Mask(l) >> 1)}
			for pos, peer := range peers {
				check([]c11Block{b}, cert, peer, pos)
			}
		}
	}
	// multi-block lists
	nMulti := 60
	if verifThorough() {
		nMulti = 10000
	}
	for i := 0; i < nMulti; i++ {
		var blocks []c11Block
		var nets []net.IPNet
		for k := 1 + rng.Intn(4); k > 0; k-- {
			l := rng.Intn(33)
			b := c11Block{rng.Uint32() & c11Mask(l), l}
			if l < 4 {
				b.Len = 8 + rng.Intn(24) // avoid everything-matches lists
				b.Net = rng.Uint32() & c11Mask(b.Len)
			}
			blocks = append(blocks, b)
			nets = append(nets, c11IPNet(b, rng.Intn(2) == 0))
		}
		cert, err := ca.mint(nets)
		if err != nil {
			rep.Violate("C11/codec/mint-refused-multi", err.Error(), nil)
			continue
		}
		got, err, p := c11SafeExtract(cert)
		var want []string
		for _, b := range blocks {
			want = append(want, b.String())
		}
		sort.Strings(want)
		if p != nil || err != nil || fmt.Sprint(c11Normalise(got)) != fmt.Sprint(want) {
			rep.Violate("C11/codec/readback-multi", "multi-block list read back differs", c11Case{Blocks: want, ReadBack: c11Normalise(got)})
		} else {
			rep.Count("readback_multi_ok", 1)
		}
		for _, b := range blocks {
			check(blocks, cert, b.Net|(^c11Mask(b.Len)&rng.Uint32()), "multi-inside")
			check(blocks, cert, b.Net-1, "multi-below")
		}
		check(blocks, cert, rng.Uint32(), "multi-random")
	}
	// IPv6 and IPv4-mapped peers
	{
		b := c11Block{0x0a000000, 8}
		cert, _ := ca.mint([]net.IPNet{c11IPNet(b, true)})
		for _, remote := range []string{"[2001:db8::1]:443", "[::1]:80", "[fe80::1%25eth0]:22", "[::ffff:11.0.0.1]:5000", "[::ffff:9.255.255.255]:5000", "[::a00:1]:5000"} {
			ok, err, p := c11SafeVerify(cert, remote)
			rep.Eval("v6peer|" + remote)
			cs := c11Case{Blocks: []string{b.String()}, Peer: remote, Got: ok}
			if err != nil {
				cs.Err = err.Error()
			}
			if p != nil {
				rep.Violate("C11/codec/panic-v6peer", fmt.Sprint(p), cs)
			} else if ok {
				rep.Violate("C11/codec/accepts-v6-or-mapped-outside", "an IPv6 peer / IPv4-mapped peer outside the netblock was accepted", cs)
			} else {
				rep.Count("v6_peer_rejected", 1)
				rep.Sample("v6peer", 2, cs)
			}
		}
		// a mapped spelling of an inside address: statement does not say; observed only
		ok, _, _ := c11SafeVerify(cert, "[::ffff:10.1.2.3]:5000")
		rep.Obs("IPv4-mapped peer inside the netblock accepted=%v (unspecified by the statement)", ok)
		// malformed remote addresses never match
		for _, remote := range []string{"", "10.1.2.3", "not-an-ip:22", "10.1.2.3.4:22", ":22", "11.1.2.3:"} {
			ok, _, p := c11SafeVerify(cert, remote)
			rep.Eval("badremote|" + remote)
			if p != nil || ok {
				rep.Violate("C11/codec/bad-remote-accepted", "malformed peer address accepted or panicked", c11Case{Peer: remote, Got: ok, Err: fmt.Sprint(p)})
			}
		}
	}
	// IPv6 netblocks are refused at mint; unmasked blocks never widen
	{
		_, n6, _ := net.ParseCIDR("2001:db8::/32")
		if _, err := ca.mint([]net.IPNet{*n6}); err == nil {
			rep.Violate("C11/codec/ipv6-block-minted", "an IPv6 netblock was minted into an IPv4 address family", nil)
		} else {
			rep.Count("ipv6_block_refused", 1)
		}
		rep.Eval("ipv6-block")
		for i := 0; i < 40; i++ {
			l := 1 + rng.Intn(31)
			ip := rng.Uint32()
			unmasked := net.IPNet{IP: c11IP(ip).To4(), Mask: net.CIDRMask(l, 32)}
			cert, err := ca.mint([]net.IPNet{unmasked})
			rep.Eval(fmt.Sprintf("unmasked|len=%d|minted=%v", l, err == nil))
			if err != nil {
				continue
			}
			b := c11Block{ip & c11Mask(l), l}
			for _, peer := range []uint32{b.Net - 1, (b.Net | ^c11Mask(l)) + 1, b.Net ^ 0x80000000, rng.Uint32()} {
				if b.contains(peer) {
					continue
				}
				ok, _, p := c11SafeVerify(cert, c11IP(peer).String()+":99")
				if p != nil || ok {
					rep.Violate("C11/codec/unmasked-widens", "a netblock given with host bits set accepts a peer outside the masked network",
						c11Case{Blocks: []string{unmasked.String()}, Peer: c11IP(peer).String(), Got: ok, Err: fmt.Sprint(p)})
				} else {
					rep.Count("unmasked_outside_rejected", 1)
				}
			}
		}
	}
	// structurally corrupted extensions in an otherwise trusted certificate
	type fam struct {
		AddressFamily []byte
		Addresses     []asn1.BitString
	}
	var exts [][]byte
	enc := func(v interface{}) {
		b, err := asn1.Marshal(v)
		if err == nil {
			exts = append(exts, b)
		}
	}
	// every bit length up to 600 and the neighbourhoods of 2^16 and 2^10..2^12: a length that is only right modulo the
	// width of some narrower integer (256 + 16, 65536 + 8, ...) is as malformed as 33
	bitLengths := []int{}
	for bl := 0; bl <= 600; bl++ {
		bitLengths = append(bitLengths, bl)
	}
	for _, base := range []int{1024, 2048, 4096, 65536} {
		for _, d := range []int{0, 1, 8, 16, 24, 31, 32} {
			bitLengths = append(bitLengths, base+d)
		}
	}
	for _, bl := range bitLengths {
		nbytes := (bl + 7) / 8
		by := make([]byte, nbytes)
		for i := range by {
			by[i] = byte(rng.Intn(256))
		}
		if bl%8 != 0 && nbytes > 0 {
			by[nbytes-1] &= ^byte(0) << (8 - bl%8)
		}
		enc([]fam{{AddressFamily: []byte{0, 1, 1}, Addresses: []asn1.BitString{{Bytes: by, BitLength: bl}}}})
	}
	// a block that contains the probing peers followed (or preceded) by an oversized one: the extension is malformed as a
	// whole and must not be honoured on the strength of its well-formed part
	for _, goodBlock := range []asn1.BitString{{Bytes: []byte{}, BitLength: 0}, {Bytes: []byte{11}, BitLength: 8}, {Bytes: []byte{192, 168, 1, 1}, BitLength: 32}} {
		over := asn1.BitString{Bytes: []byte{1, 2, 3, 4, 5}, BitLength: 40}
		enc([]fam{{AddressFamily: []byte{0, 1, 1}, Addresses: []asn1.BitString{goodBlock, over}}})
		enc([]fam{{AddressFamily: []byte{0, 1, 1}, Addresses: []asn1.BitString{over, goodBlock}}})
		enc([]fam{{AddressFamily: []byte{0, 1, 1}, Addresses: []asn1.BitString{goodBlock}}, {AddressFamily: []byte{0, 1, 1}, Addresses: []asn1.BitString{over}}})
	}
	// address families that are not IPv4 (empty, truncated, IPv6, other AFIs) over blocks that would contain the probing
	// peers if they were read as IPv4
	for _, family := range [][]byte{{}, {0}, {1}, {0, 0}, {0, 2}, {0, 2, 1}, {1, 1}, {0, 0, 1}, {1}} {
		for _, blk := range []asn1.BitString{{Bytes: []byte{}, BitLength: 0}, {Bytes: []byte{11}, BitLength: 8}, {Bytes: []byte{192, 168}, BitLength: 16}} {
			enc([]fam{{AddressFamily: family, Addresses: []asn1.BitString{blk}}})
			enc([]fam{{AddressFamily: []byte{0, 1, 1}, Addresses: []asn1.BitString{{Bytes: []byte{10, 20}, BitLength: 16}}}, {AddressFamily: family, Addresses: []asn1.BitString{blk}}})
		}
	}
	enc([]fam{})
	enc([]fam{{AddressFamily: []byte{0, 1, 1}}})
	enc([]fam{{AddressFamily: []byte{}, Addresses: []asn1.BitString{{Bytes: []byte{10}, BitLength: 8}}}})
	enc([]fam{{AddressFamily: []byte{0, 2}, Addresses: []asn1.BitString{{Bytes: make([]byte, 16), BitLength: 128}}}})
	enc([]fam{{AddressFamily: []byte{0, 1}, Addresses: []asn1.BitString{{Bytes: []byte{10}, BitLength: 8}}}})
	enc([]fam{{AddressFamily: []byte{0, 1, 1, 7}, Addresses: []asn1.BitString{{Bytes: []byte{10}, BitLength: 8}}}})
	enc([]fam{{AddressFamily: []byte{0, 2}, Addresses: []asn1.BitString{{Bytes: make([]byte, 16), BitLength: 128}}},
		{AddressFamily: []byte{0, 1, 1}, Addresses: []asn1.BitString{{Bytes: []byte{10, 20}, BitLength: 16}}}})
	exts = append(exts, []byte{}, []byte{0x30, 0x00}, []byte{0x30, 0x80}, []byte{0xff, 0xff, 0xff}, []byte{0x30, 0x03, 0x02, 0x01, 0x05},
		[]byte{0x04, 0x02, 0x0a, 0x00})
	nGarbage := 100
	if verifThorough() {
		nGarbage = 100000
	}
	good, _ := asn1.Marshal([]fam{{AddressFamily: []byte{0, 1, 1}, Addresses: []asn1.BitString{{Bytes: []byte{10, 20}, BitLength: 16}}}})
	for i := 0; i < nGarbage; i++ {
		m := append([]byte{}, good...)
		for k := 1 + rng.Intn(3); k > 0; k-- {
			switch rng.Intn(3) {
			case 0:
				m[rng.Intn(len(m))] ^= byte(1 << rng.Intn(8))
			case 1:
				m[rng.Intn(len(m))] = byte(rng.Intn(256))
			default:
				if len(m) > 2 {
					m = m[:len(m)-1]
				}
			}
		}
		exts = append(exts, m)
	}
	// peers that lie outside 10.20.0.0/16 AND whose acceptance could only come
	// from a widened / garbage block: with corrupted input the only safe
	// verdicts are "reject" or "error"; accept is allowed only if the decoded
	// well-formed content really contains the peer (decided by re-decoding the
	// DER independently below).
	for _, ev := range exts {
		cert, err := ca.mintRaw(ev)
		if err != nil {
			continue
		}
		// independent decode of what the extension really says
		var fams []fam
		rest, derr := asn1.Unmarshal(ev, &fams)
		wellFormed := derr == nil && len(rest) == 0
		for _, peer := range []uint32{0x0b000001, 0xc0a80101, rng.Uint32()} {
			ok, verr, p := c11SafeVerify(cert, c11IP(peer).String()+":1")
			_, eerr, p2 := c11SafeExtract(cert)
			_ = eerr
			rep.Eval(fmt.Sprintf("corrupt|wf=%v|accepted=%v|err=%v", wellFormed, ok, verr != nil))
			cs := c11Case{Ext: fmt.Sprintf("%x", ev), Peer: c11IP(peer).String(), Got: ok}
			if p != nil || p2 != nil {
				rep.Violate("C11/codec/panic-on-corrupted-extension", fmt.Sprint(p, p2), cs)
				break
			}
			if ok {
				// legitimate only if the extension is well formed, no IPv4 block in it is oversized, and one contains peer
				legit := false
				oversized := false
				for _, f := range fams {
					if len(f.AddressFamily) >= 2 && f.AddressFamily[0] == 0 && f.AddressFamily[1] == 1 {
						for _, a := range f.Addresses {
							if a.BitLength > 32 {
								oversized = true
							}
						}
					}
				}
				if wellFormed && !oversized {
					for _, f := range fams {
						if len(f.AddressFamily) < 2 || f.AddressFamily[0] != 0 || f.AddressFamily[1] != 1 {
							continue
						}
						for _, a := range f.Addresses {
							if a.BitLength > 32 {
								continue
							}
							var u uint32
							for i := 0; i < len(a.Bytes) && i < 4; i++ {
								u |= uint32(a.Bytes[i]) << (24 - 8*i)
							}
							if (c11Block{u, a.BitLength}).contains(peer) {
								legit = true
							}
						}
					}
				}
				if !legit {
					rep.Violate("C11/codec/corrupted-extension-widens", "a corrupted extension made an outside peer acceptable", cs)
				}
			} else {
				rep.Count("corrupt_rejected", 1)
			}
		}
	}
	rep.Floor("membership_true", 200)
	rep.Floor("membership_false", 200)
	rep.Floor("readback_ok", 200)
	rep.Floor("corrupt_rejected", 300)
	rep.Floor("v6_peer_rejected", 4)
}
