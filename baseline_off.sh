#!/bin/bash
# Runs the repository's own suite with the verif guard OFF (no overlay, no tag)
# and compares the passing set with /root/.vp/BASELINE.json (143 stable passes).
set -u
export GOFLAGS=-mod=mod GOPROXY=off
unset GOTOOLCHAIN GOSUMDB
cd /repo || exit 2
out=$(mktemp)
go test -json -vet=off -count=1 -timeout 25m ./... > "$out" 2>/dev/null
python3 - "$out" <<'PY'
import json,sys
passed=set()
for l in open(sys.argv[1]):
    try: e=json.loads(l)
    except Exception: continue
    if e.get("Action")=="pass" and e.get("Test"):
        passed.add(e["Package"]+"::"+e["Test"])
base=json.load(open("/root/.vp/BASELINE.json"))["stable_pass"]
missing=[t for t in base if t not in passed]
print("baseline stable_pass=%d passed_now=%d missing=%d"%(len(base),len(passed),len(missing)))
for m in missing: print("MISSING",m)
sys.exit(1 if missing else 0)
PY
rc=$?
rm -f "$out"
exit $rc
