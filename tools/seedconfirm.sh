#!/bin/bash
# usage: tools/seedconfirm.sh <seed-dir> <demo-file-in-seed-dir> <target-path-in-repo> <run-regexp>
# (SEED_GOTEST_FLAGS, e.g. -race, is passed to the demonstration's go test.)
# Confirms in a scratch worktree: (1) demo passes on the pristine tree, (2) with the patch the tree builds and
# the demo fails, (3) with the patch (demo removed) every stable-pass test of the baseline still passes.
set -u
sd=$(readlink -f "$1"); demo="$2"; target="$3"; rx="$4"
export GOFLAGS=-mod=mod GOPROXY=off
name=confirm-$(echo "$sd" | md5sum | cut -c1-8)
wt=/tmp/seedrun/$name
mkdir -p /tmp/seedrun
git -C /repo worktree remove --force "$wt" >/dev/null 2>&1
git -C /repo worktree add --detach "$wt" HEAD -q || exit 2
pkg=./$(dirname "$target")
run() { (cd "$wt" && unshare -n sh -c "ip link set lo up; go test ${SEED_GOTEST_FLAGS:-} -vet=off -count=1 -run '$rx' $pkg" 2>&1 | tail -40); }
cp "$sd/$demo" "$wt/$target"
out1=$(run); echo "$out1" | grep -qE "^ok" && r1=PASS || r1=FAIL
git -C "$wt" apply "$sd/patch.diff" || { echo "PATCH DOES NOT APPLY"; git -C /repo worktree remove --force "$wt"; exit 2; }
(cd "$wt" && go build ./cmd/keymasterd ./lib/... ./keymasterd/... ./eventmon/... 2>&1 | grep -v "libudev\|pkg-config\|bearsh\|^#" | head -5)
out2=$(run); echo "$out2" | grep -qE "^(FAIL|--- FAIL|panic)" && r2=FAIL || r2=PASS
rm -f "$wt/$target"
js=$(mktemp)
(cd "$wt" && unshare -n sh -c "ip link set lo up; go test -json -vet=off -count=1 -timeout 20m ./... " > $js 2>/dev/null)
suite=$(python3 - "$js" <<'PY'
import json,sys
passed=set()
for l in open(sys.argv[1]):
    try: e=json.loads(l)
    except Exception: continue
    if e.get("Action")=="pass" and e.get("Test"): passed.add(e["Package"]+"::"+e["Test"])
base=json.load(open("/root/.vp/BASELINE.json"))["stable_pass"]
missing=[t for t in base if t not in passed]
print("suite: %d/%d baseline tests pass%s"%(len(base)-len(missing),len(base)," MISSING "+",".join(missing[:5]) if missing else ""))
PY
)
rm -f $js
echo "pristine-demo=$r1 patched-demo=$r2 $suite"
if [ "$r2" = FAIL ]; then echo "$out2" | grep -E "^\s+.*(_test.go|Error|FAIL)" | head -4; fi
git -C /repo worktree remove --force "$wt"
