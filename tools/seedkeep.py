#!/usr/bin/env python3
"""usage: tools/seedkeep.py <src-dir> <dest-name> <demo-file> <target-path-in-repo> <run-regexp> <check> [<check>...]
Confirms a seeded breaking change (tools/seedconfirm.sh), runs the given checks against it
(tools/seedtest.sh) and archives it under /verif/seeded/<dest-name>/ with what was run and observed."""
import json, os, shutil, subprocess, sys
src, dest, demo, target, rx = sys.argv[1:6]
checks = sys.argv[6:]
V = "/verif"
conf = subprocess.run([V + "/tools/seedconfirm.sh", src, demo, target, rx], capture_output=True, text=True).stdout
print(conf)
last = [l for l in conf.splitlines() if l.startswith("pristine-demo=")]
ok = bool(last) and "pristine-demo=PASS patched-demo=FAIL" in last[0] and "MISSING" not in last[0] and "143/143" in last[0]
res = {}
for c in checks:
    env = dict(os.environ, LINES_MAX="8")
    out = subprocess.run([V + "/tools/seedtest.sh", os.path.join(src, "patch.diff"), c], capture_output=True, text=True, env=env).stdout
    print(out)
    keys = [l.strip()[5:].strip() for l in out.splitlines() if l.strip().startswith("key:")]
    res[c] = {"caught": "VIOLATION" in out, "finding_keys": keys[:6], "verdict_line": ([l for l in out.splitlines() if l.startswith(c + " tier=")] or [""])[-1]}
d = os.path.join(V, "seeded", dest)
os.makedirs(d, exist_ok=True)
for f in os.listdir(src):
    p = os.path.join(src, f)
    if os.path.isfile(p) and os.path.getsize(p) < 200000 and f not in ("after.txt", "suite_with_patch.txt"):
        shutil.copy(p, os.path.join(d, f))
meta = {}
mp = os.path.join(src, "meta.json")
if os.path.exists(mp):
    try:
        meta = json.load(open(mp))
    except Exception:
        meta = {"raw_meta": open(mp).read()}
meta["confirmation"] = {"command": "%stools/seedconfirm.sh %s %s %s %s" % (("SEED_GOTEST_FLAGS=%s " % os.environ["SEED_GOTEST_FLAGS"]) if os.environ.get("SEED_GOTEST_FLAGS") else "", src, demo, target, rx),
                        "result": last[0] if last else conf[-300:], "confirmed": ok,
                        "means": "in a scratch worktree of /repo HEAD: demonstration passes on the pristine tree, fails with the patch; with the patch the tree builds and all 143 baseline tests still pass"}
meta["checks_run"] = {"command": "tools/seedtest.sh <patch.diff> " + " ".join(checks) + " (patch applied to a scratch worktree, checks run with VERIF_REPO pointing at it, quick tier, seed 1)", "results": res}
meta["demo_file"] = demo
meta["demo_target_path"] = target
json.dump(meta, open(os.path.join(d, "meta.json"), "w"), indent=1)
print("ARCHIVED", d, "confirmed=%s" % ok, {c: r["caught"] for c, r in res.items()})
