#!/bin/bash
# usage: tools/sweep.sh <tier> <seed>...   runs every registered check, prints one line each
tier=$1; shift
cd /verif
for seed in "$@"; do
  for c in $(python3 -c "import json;print(' '.join(sorted(k for k,v in json.load(open('harness/registry.json')).items() if not v.get('disabled'))))"); do
    out=$(VERIF_SEED=$seed ./run check $c --tier $tier 2>&1)
    line=$(echo "$out" | grep -E "^$c tier=" | tail -1)
    echo "seed=$seed ${line:-$c NO-SUMMARY: $(echo "$out" | tail -2 | tr '\n' ' ')}"
    echo "$out" | grep -E "^(VIOLATION|  key|INCONCLUSIVE|BROKEN)" | head -6
  done
done
