#!/usr/bin/env python3
"""Regenerates /verif/MANIFEST.json from harness/registry.json (claimed checks)
and the list of properties (unclaimed ones go to not_applicable)."""
import json, os
V = os.path.dirname(os.path.dirname(os.path.abspath(__file__)))
reg = json.load(open(os.path.join(V, "harness", "registry.json")))
props = [json.loads(l) for l in open(os.path.join(V, "properties.jsonl"))]
checks = []
na = []
for p in props:
    pid = p["id"]
    if pid in reg and not reg[pid].get("disabled"):
        e = reg[pid]
        checks.append({
            "property_id": pid,
            "quick_cmd": "./run check %s --tier quick" % pid,
            "thorough_cmd": "./run check %s --tier thorough" % pid,
            "evidence_file": "/verif/evidence/%s.json" % pid,
            "replay_cmd_template": "./run check %s --replay {path}" % pid,
            "engine": e.get("engine", "A"),
            "level_claimed": {"category": e.get("level", "exploration"), "text": e["level_text"],
                              "design_ref": "DESIGN.md section 5, " + pid},
            "level_note": e["level_note"],
            "technique": e["technique"],
        })
    else:
        na.append({"property_id": pid, "reason": (reg.get(pid, {}) or {}).get("na_reason",
                   "check not built yet in this round (runtime monitoring applies; see DESIGN.md section 5)")})
man = {
    "version": 1,
    "setup_cmd": "./run setup",
    "hooks": {"guard": "verif", "enable": "no in-source hooks: harness files are compiled into /repo packages with `go test -overlay` (see DESIGN.md section 7); the tag `verif` is reserved",
              "baseline_off_cmd": "/verif/baseline_off.sh", "source_commits": [], "add_only": True},
    "engines": [
        {"name": "A", "path": "/verif/harness/keymasterd", "kind_free_text": "in-process overlay harness in package main of cmd/keymasterd: real handlers behind the route table extracted from main(), reference-model oracles over request/response events",
         "serves_properties": sorted(k for k, v in reg.items() if v.get("engine", "A") == "A" and not v.get("disabled"))},
        {"name": "B", "path": "/verif/harness/blackbox", "kind_free_text": "real (race-instrumented) keymasterd binary driven over TLS",
         "serves_properties": sorted(k for k, v in reg.items() if "B" in v.get("engine", "") and not v.get("disabled"))},
        {"name": "C", "path": "/verif/harness", "kind_free_text": "overlay harnesses inside library packages (certgen, eventrecorder, eventnotifier, ldap, client)",
         "serves_properties": sorted(k for k, v in reg.items() if "C" in v.get("engine", "") and not v.get("disabled"))},
    ],
    "checks": checks,
    "not_applicable": na,
    "notes": "Runtime monitoring only. Known findings: /verif/known_findings.json. Seeded breaking changes: /verif/seeded/.",
}
json.dump(man, open(os.path.join(V, "MANIFEST.json"), "w"), indent=1)
print("claimed:", [c["property_id"] for c in checks], "not_applicable:", len(na))
