#!/bin/bash
# usage: tools/seedtest.sh <patch.diff> <check> [<check>...]
# Applies the patch to a scratch worktree of /repo (never to /repo itself), runs the
# given checks against it (VERIF_REPO), prints their verdict lines, removes the worktree.
set -u
patch=$(readlink -f "$1"); shift
name=$(echo "$patch" | md5sum | cut -c1-8)
wt=/tmp/seedrun/$name
mkdir -p /tmp/seedrun
git -C /repo worktree remove --force "$wt" >/dev/null 2>&1
git -C /repo worktree add --detach "$wt" HEAD -q || exit 2
if ! git -C "$wt" apply "$patch"; then echo "PATCH DOES NOT APPLY"; git -C /repo worktree remove --force "$wt"; exit 2; fi
cd /verif
for c in "$@"; do
  out=$(VERIF_REPO=$wt VERIF_EVIDENCE_DIR=/tmp/seedrun/evidence-$name ./run check $c --tier ${TIER:-quick} 2>&1)
  echo "$out" | grep -E "^($c tier=|VIOLATION|  key|BROKEN|INCONCLUSIVE)" | head -${LINES_MAX:-12}
done
git -C /repo worktree remove --force "$wt"
rm -rf /tmp/seedrun/evidence-$name
